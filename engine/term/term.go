// Package term implements hash-consed SMT terms over Bool and fixed-width
// bit-vectors (width 1..64), with constant folding and light simplification,
// so that concrete computation never reaches the solver.
package term

import (
	"fmt"
	"math"
	"math/bits"
	"strings"
)

type Kind uint8

const (
	KBoolConst Kind = iota
	KConst
	KSym
	KNot  // bool
	KAnd  // bool
	KOr   // bool
	KEq   // bool (args same sort)
	KIte  // any
	KBvNot
	KBvNeg
	KAdd
	KSub
	KMul
	KUDiv
	KSDiv
	KURem
	KSRem
	KBvAnd
	KBvOr
	KBvXor
	KShl
	KLShr
	KAShr
	KUlt
	KUle
	KSlt
	KSle
	KExtract // A=hi B=lo
	KConcat
	KZExt // to width W
	KSExt // to width W
	KFp   // floating point op over bit patterns; Name = op
)

var kindSMT = map[Kind]string{
	KNot: "not", KAnd: "and", KOr: "or", KEq: "=", KIte: "ite",
	KBvNot: "bvnot", KBvNeg: "bvneg", KAdd: "bvadd", KSub: "bvsub", KMul: "bvmul",
	KUDiv: "bvudiv", KSDiv: "bvsdiv", KURem: "bvurem", KSRem: "bvsrem",
	KBvAnd: "bvand", KBvOr: "bvor", KBvXor: "bvxor", KShl: "bvshl", KLShr: "bvlshr", KAShr: "bvashr",
	KUlt: "bvult", KUle: "bvule", KSlt: "bvslt", KSle: "bvsle", KConcat: "concat",
}

// T is a term. W==0 means Bool sort, otherwise a bit-vector of width W.
type T struct {
	ID   int
	Kind Kind
	W    int
	Val  uint64
	Name string
	Args []*T
	A, B int
	Size int // dag-unaware size estimate
}

type key struct {
	k          Kind
	w          int
	val        uint64
	name       string
	a0, a1, a2 int
	x, y       int
}

// Table is a hash-consing table. Not safe for concurrent use.
type Table struct {
	nodes map[key]*T
	next  int
	True  *T
	False *T
}

func NewTable() *Table {
	tb := &Table{nodes: map[key]*T{}}
	tb.True = tb.mk(KBoolConst, 0, 1, "", nil, 0, 0)
	tb.False = tb.mk(KBoolConst, 0, 0, "", nil, 0, 0)
	return tb
}

func (tb *Table) Count() int { return tb.next }

func (tb *Table) mk(k Kind, w int, val uint64, name string, args []*T, x, y int) *T {
	ky := key{k: k, w: w, val: val, name: name, x: x, y: y, a0: -1, a1: -1, a2: -1}
	if len(args) > 0 {
		ky.a0 = args[0].ID
	}
	if len(args) > 1 {
		ky.a1 = args[1].ID
	}
	if len(args) > 2 {
		ky.a2 = args[2].ID
	}
	if len(args) > 3 {
		panic("term: too many args")
	}
	if t, ok := tb.nodes[ky]; ok {
		return t
	}
	sz := 1
	for _, a := range args {
		sz += a.Size
		if sz > 1<<30 {
			sz = 1 << 30
		}
	}
	t := &T{ID: tb.next, Kind: k, W: w, Val: val, Name: name, Args: args, A: x, B: y, Size: sz}
	tb.next++
	tb.nodes[ky] = t
	return t
}

func mask(w int) uint64 {
	if w >= 64 {
		return ^uint64(0)
	}
	return (uint64(1) << uint(w)) - 1
}

func sext64(v uint64, w int) int64 {
	if w >= 64 {
		return int64(v)
	}
	sh := uint(64 - w)
	return int64(v<<sh) >> sh
}

func (t *T) IsConst() bool { return t.Kind == KConst || t.Kind == KBoolConst }
func (t *T) IsBool() bool  { return t.W == 0 }

// Uint returns the constant's unsigned value.
func (t *T) Uint() uint64 { return t.Val }

// Int returns the constant's signed value.
func (t *T) Int() int64 { return sext64(t.Val, t.W) }

func (tb *Table) Bool(b bool) *T {
	if b {
		return tb.True
	}
	return tb.False
}

func (tb *Table) Const(w int, v uint64) *T {
	if w <= 0 || w > 64 {
		panic(fmt.Sprintf("term: bad width %d", w))
	}
	return tb.mk(KConst, w, v&mask(w), "", nil, 0, 0)
}

func (tb *Table) Sym(name string, w int) *T {
	return tb.mk(KSym, w, 0, name, nil, 0, 0)
}

func (tb *Table) Not(a *T) *T {
	if a.W != 0 {
		panic("Not on non-bool")
	}
	if a.Kind == KBoolConst {
		return tb.Bool(a.Val == 0)
	}
	if a.Kind == KNot {
		return a.Args[0]
	}
	return tb.mk(KNot, 0, 0, "", []*T{a}, 0, 0)
}

func (tb *Table) And(a, b *T) *T {
	if a.W != 0 || b.W != 0 {
		panic("And on non-bool")
	}
	if a.Kind == KBoolConst {
		if a.Val == 0 {
			return tb.False
		}
		return b
	}
	if b.Kind == KBoolConst {
		if b.Val == 0 {
			return tb.False
		}
		return a
	}
	if a == b {
		return a
	}
	if tb.Not(a) == b {
		return tb.False
	}
	if a.ID > b.ID {
		a, b = b, a
	}
	return tb.mk(KAnd, 0, 0, "", []*T{a, b}, 0, 0)
}

func (tb *Table) Or(a, b *T) *T {
	if a.W != 0 || b.W != 0 {
		panic("Or on non-bool")
	}
	if a.Kind == KBoolConst {
		if a.Val == 1 {
			return tb.True
		}
		return b
	}
	if b.Kind == KBoolConst {
		if b.Val == 1 {
			return tb.True
		}
		return a
	}
	if a == b {
		return a
	}
	if tb.Not(a) == b {
		return tb.True
	}
	if a.ID > b.ID {
		a, b = b, a
	}
	return tb.mk(KOr, 0, 0, "", []*T{a, b}, 0, 0)
}

func (tb *Table) Implies(a, b *T) *T { return tb.Or(tb.Not(a), b) }

func (tb *Table) Eq(a, b *T) *T {
	if a.W != b.W {
		panic(fmt.Sprintf("Eq width mismatch %d %d", a.W, b.W))
	}
	if a == b {
		return tb.True
	}
	if a.IsConst() && b.IsConst() {
		return tb.Bool(a.Val == b.Val)
	}
	if a.W == 0 {
		// bool equality
		if a.Kind == KBoolConst {
			if a.Val == 1 {
				return b
			}
			return tb.Not(b)
		}
		if b.Kind == KBoolConst {
			if b.Val == 1 {
				return a
			}
			return tb.Not(a)
		}
	}
	// eq(ite(c, k1, k2), k) with constants
	if b.IsConst() && a.Kind == KIte && a.Args[1].IsConst() && a.Args[2].IsConst() {
		return tb.Ite(a.Args[0], tb.Eq(a.Args[1], b), tb.Eq(a.Args[2], b))
	}
	if a.IsConst() && b.Kind == KIte && b.Args[1].IsConst() && b.Args[2].IsConst() {
		return tb.Ite(b.Args[0], tb.Eq(b.Args[1], a), tb.Eq(b.Args[2], a))
	}
	// eq(zext(x), const): const must fit
	if b.IsConst() && (a.Kind == KZExt) {
		x := a.Args[0]
		if b.Val&^mask(x.W) != 0 {
			return tb.False
		}
		return tb.Eq(x, tb.Const(x.W, b.Val))
	}
	if a.IsConst() && (b.Kind == KZExt) {
		return tb.Eq(b, a)
	}
	// eq(sext(x), const): const must be the sign extension of its low bits
	if b.IsConst() && (a.Kind == KSExt) {
		x := a.Args[0]
		low := b.Val & mask(x.W)
		ext := low
		if low>>(uint(x.W)-1)&1 == 1 {
			ext = low | (mask(a.W) &^ mask(x.W))
		}
		if ext != b.Val {
			return tb.False
		}
		return tb.Eq(x, tb.Const(x.W, low))
	}
	if a.IsConst() && (b.Kind == KSExt) {
		return tb.Eq(b, a)
	}
	if a.ID > b.ID {
		a, b = b, a
	}
	return tb.mk(KEq, 0, 0, "", []*T{a, b}, 0, 0)
}

func (tb *Table) Ite(c, a, b *T) *T {
	if c.W != 0 || a.W != b.W {
		panic("Ite sort mismatch")
	}
	if c.Kind == KBoolConst {
		if c.Val == 1 {
			return a
		}
		return b
	}
	if a == b {
		return a
	}
	if a.W == 0 {
		if a.Kind == KBoolConst && b.Kind == KBoolConst {
			if a.Val == 1 {
				return c
			}
			return tb.Not(c)
		}
		if a.Kind == KBoolConst {
			if a.Val == 1 {
				return tb.Or(c, b)
			}
			return tb.And(tb.Not(c), b)
		}
		if b.Kind == KBoolConst {
			if b.Val == 1 {
				return tb.Or(tb.Not(c), a)
			}
			return tb.And(c, a)
		}
	}
	if c.Kind == KNot {
		return tb.Ite(c.Args[0], b, a)
	}
	return tb.mk(KIte, a.W, 0, "", []*T{c, a, b}, 0, 0)
}

func (tb *Table) BvNot(a *T) *T {
	if a.IsConst() {
		return tb.Const(a.W, ^a.Val)
	}
	if a.Kind == KBvNot {
		return a.Args[0]
	}
	return tb.mk(KBvNot, a.W, 0, "", []*T{a}, 0, 0)
}

func (tb *Table) Neg(a *T) *T {
	if a.IsConst() {
		return tb.Const(a.W, -a.Val)
	}
	return tb.mk(KBvNeg, a.W, 0, "", []*T{a}, 0, 0)
}

func foldBin(k Kind, w int, x, y uint64) (uint64, bool) {
	m := mask(w)
	x &= m
	y &= m
	switch k {
	case KAdd:
		return x + y, true
	case KSub:
		return x - y, true
	case KMul:
		return x * y, true
	case KUDiv:
		if y == 0 {
			return m, true
		}
		return x / y, true
	case KURem:
		if y == 0 {
			return x, true
		}
		return x % y, true
	case KSDiv:
		sx, sy := sext64(x, w), sext64(y, w)
		if sy == 0 {
			if sx >= 0 {
				return m, true
			}
			return 1, true
		}
		if sy == -1 {
			return uint64(-sx), true
		}
		return uint64(sx / sy), true
	case KSRem:
		sx, sy := sext64(x, w), sext64(y, w)
		if sy == 0 {
			return x, true
		}
		if sy == -1 {
			return 0, true
		}
		return uint64(sx % sy), true
	case KBvAnd:
		return x & y, true
	case KBvOr:
		return x | y, true
	case KBvXor:
		return x ^ y, true
	case KShl:
		if y >= uint64(w) {
			return 0, true
		}
		return x << y, true
	case KLShr:
		if y >= uint64(w) {
			return 0, true
		}
		return x >> y, true
	case KAShr:
		sx := sext64(x, w)
		if y >= uint64(w) {
			if sx < 0 {
				return m, true
			}
			return 0, true
		}
		return uint64(sx >> y), true
	}
	return 0, false
}

// Bin builds a binary bit-vector operation.
func (tb *Table) Bin(k Kind, a, b *T) *T {
	if a.W != b.W || a.W == 0 {
		panic(fmt.Sprintf("Bin %v width mismatch %d %d", k, a.W, b.W))
	}
	w := a.W
	if a.IsConst() && b.IsConst() {
		v, ok := foldBin(k, w, a.Val, b.Val)
		if !ok {
			panic("foldBin")
		}
		return tb.Const(w, v)
	}
	// commutative: constant to the right
	switch k {
	case KAdd, KMul, KBvAnd, KBvOr, KBvXor:
		if a.IsConst() {
			a, b = b, a
		}
	}
	if b.IsConst() {
		c := b.Val
		switch k {
		case KAdd:
			if c == 0 {
				return a
			}
			// (x + c1) + c2
			if a.Kind == KAdd && a.Args[1].IsConst() {
				return tb.Bin(KAdd, a.Args[0], tb.Const(w, a.Args[1].Val+c))
			}
		case KSub:
			if c == 0 {
				return a
			}
			return tb.Bin(KAdd, a, tb.Const(w, -c))
		case KBvOr, KBvXor, KShl, KLShr, KAShr:
			if c == 0 {
				return a
			}
			if k == KBvOr && c == mask(w) {
				return b
			}
			if (k == KShl || k == KLShr) && c >= uint64(w) {
				return tb.Const(w, 0)
			}
			if k == KLShr && a.Kind == KZExt && c >= uint64(a.Args[0].W) {
				return tb.Const(w, 0)
			}
		case KBvAnd:
			if c == 0 {
				return b
			}
			if c == mask(w) {
				return a
			}
			// and(zext(x), c) where c covers x's width
			if a.Kind == KZExt && c&mask(a.Args[0].W) == mask(a.Args[0].W) {
				return a
			}
			// low mask: and(x, 2^k-1) = zext(extract(k-1,0,x))
			if c&(c+1) == 0 {
				kbits := bits.Len64(c)
				return tb.ZExt(tb.Extract(a, kbits-1, 0), w)
			}
		case KMul:
			if c == 0 {
				return b
			}
			if c == 1 {
				return a
			}
		case KUDiv, KSDiv:
			if c == 1 {
				return a
			}
		}
	}
	if a.IsConst() {
		switch k {
		case KShl, KLShr, KAShr, KMul, KBvAnd, KUDiv, KURem:
			if a.Val == 0 && k != KUDiv && k != KURem {
				return a
			}
		}
	}
	// narrow multiplications and divisions of extended operands (keeps bit-blasting small)
	switch k {
	case KMul, KSDiv, KSRem:
		if ai, ab, ok := narrowS(a); ok {
			if bi, bb, ok2 := narrowS(b); ok2 {
				nw := ab + bb
				if k != KMul {
					nw = ab
					if bb > nw {
						nw = bb
					}
					nw++
				}
				if nw < w {
					x := tb.resizeInner(ai, nw, true)
					y := tb.resizeInner(bi, nw, true)
					return tb.SExt(tb.Bin(k, x, y), w)
				}
			}
		}
	}
	switch k {
	case KMul, KUDiv, KURem:
		if ai, ab, ok := narrowU(a); ok {
			if bi, bb, ok2 := narrowU(b); ok2 {
				nw := ab + bb
				if k != KMul {
					nw = ab
					if bb > nw {
						nw = bb
					}
				}
				if nw < w {
					x := tb.resizeInner(ai, nw, false)
					y := tb.resizeInner(bi, nw, false)
					return tb.ZExt(tb.Bin(k, x, y), w)
				}
			}
		}
	}
	if a == b {
		switch k {
		case KSub, KBvXor:
			return tb.Const(w, 0)
		case KBvAnd, KBvOr:
			return a
		}
	}
	return tb.mk(k, w, 0, "", []*T{a, b}, 0, 0)
}

// narrowS: t is the sign extension of an inner value of `bits` bits (or a constant fitting in them).
func narrowS(t *T) (*T, int, bool) {
	switch t.Kind {
	case KSExt:
		return t.Args[0], t.Args[0].W, true
	case KZExt:
		return t, t.Args[0].W + 1, t.Args[0].W+1 < t.W
	case KConst:
		v := sext64(t.Val, t.W)
		for b := 2; b < t.W; b++ {
			if v >= -(int64(1)<<uint(b-1)) && v < int64(1)<<uint(b-1) {
				return t, b, true
			}
		}
	}
	return nil, 0, false
}

func narrowU(t *T) (*T, int, bool) {
	switch t.Kind {
	case KZExt:
		return t.Args[0], t.Args[0].W, true
	case KConst:
		for b := 1; b < t.W; b++ {
			if t.Val < uint64(1)<<uint(b) {
				return t, b, true
			}
		}
	}
	return nil, 0, false
}

// resizeInner converts the inner value of a narrowable term to width nw.
func (tb *Table) resizeInner(t *T, nw int, signed bool) *T {
	if t.Kind == KConst {
		return tb.Const(nw, t.Val)
	}
	if t.W == nw {
		return t
	}
	if t.W > nw {
		return tb.Extract(t, nw-1, 0)
	}
	if signed {
		return tb.SExt(t, nw)
	}
	return tb.ZExt(t, nw)
}

// Cmp builds a comparison (KUlt, KUle, KSlt, KSle).
func (tb *Table) Cmp(k Kind, a, b *T) *T {
	if a.W != b.W || a.W == 0 {
		panic(fmt.Sprintf("Cmp width mismatch %d %d", a.W, b.W))
	}
	if a.IsConst() && b.IsConst() {
		switch k {
		case KUlt:
			return tb.Bool(a.Val < b.Val)
		case KUle:
			return tb.Bool(a.Val <= b.Val)
		case KSlt:
			return tb.Bool(a.Int() < b.Int())
		case KSle:
			return tb.Bool(a.Int() <= b.Int())
		}
	}
	if a == b {
		return tb.Bool(k == KUle || k == KSle)
	}
	// range reasoning for zero-extended values against constants
	if lo, hi, ok := tb.urange(a); ok && b.IsConst() {
		if r, ok := decideRange(k, a.W, lo, hi, b.Val, b.Val); ok {
			return tb.Bool(r)
		}
	}
	if lo, hi, ok := tb.urange(b); ok && a.IsConst() {
		if r, ok := decideRange(k, a.W, a.Val, a.Val, lo, hi); ok {
			return tb.Bool(r)
		}
	}
	switch k {
	case KUlt:
		if b.IsConst() && b.Val == 0 {
			return tb.False
		}
	case KUle:
		if a.IsConst() && a.Val == 0 {
			return tb.True
		}
	}
	return tb.mk(k, 0, 0, "", []*T{a, b}, 0, 0)
}

// urange returns an unsigned range for zext terms (value fits in fewer bits).
func (tb *Table) urange(a *T) (lo, hi uint64, ok bool) {
	if a.Kind == KZExt && a.Args[0].W < a.W {
		return 0, mask(a.Args[0].W), true
	}
	return 0, 0, false
}

func decideRange(k Kind, w int, alo, ahi, blo, bhi uint64) (bool, bool) {
	// all values non-negative in signed interpretation iff below 2^(w-1)
	signedOK := func(v uint64) bool { return w == 64 && v < (1<<63) || w < 64 && v < (uint64(1)<<uint(w-1)) }
	switch k {
	case KSlt, KSle:
		if !(signedOK(alo) && signedOK(ahi) && signedOK(blo) && signedOK(bhi)) {
			return false, false
		}
	}
	switch k {
	case KUlt, KSlt:
		if ahi < blo {
			return true, true
		}
		if alo >= bhi {
			return false, true
		}
	case KUle, KSle:
		if ahi <= blo {
			return true, true
		}
		if alo > bhi {
			return false, true
		}
	}
	return false, false
}

func (tb *Table) Extract(a *T, hi, lo int) *T {
	if hi < lo || hi >= a.W || lo < 0 {
		panic(fmt.Sprintf("Extract bad range %d %d of %d", hi, lo, a.W))
	}
	w := hi - lo + 1
	if w == a.W {
		return a
	}
	if a.IsConst() {
		return tb.Const(w, a.Val>>uint(lo))
	}
	switch a.Kind {
	case KExtract:
		return tb.Extract(a.Args[0], hi+a.B, lo+a.B)
	case KZExt, KSExt:
		x := a.Args[0]
		if hi < x.W {
			return tb.Extract(x, hi, lo)
		}
		if a.Kind == KZExt && lo >= x.W {
			return tb.Const(w, 0)
		}
		if lo == 0 {
			if a.Kind == KZExt {
				return tb.ZExt(x, w)
			}
			return tb.SExt(x, w)
		}
	case KConcat:
		h, l := a.Args[0], a.Args[1]
		if hi < l.W {
			return tb.Extract(l, hi, lo)
		}
		if lo >= l.W {
			return tb.Extract(h, hi-l.W, lo-l.W)
		}
	case KLShr:
		if a.Args[1].IsConst() {
			k := int(a.Args[1].Val)
			if hi+k < a.W {
				return tb.Extract(a.Args[0], hi+k, lo+k)
			}
		}
	case KShl:
		if a.Args[1].IsConst() {
			k := int(a.Args[1].Val)
			if lo >= k && k < a.W {
				return tb.Extract(a.Args[0], hi-k, lo-k)
			}
			if hi < k {
				return tb.Const(w, 0)
			}
		}
	case KBvAnd, KBvOr, KBvXor:
		if lo == 0 || a.Args[1].IsConst() {
			return tb.Bin(a.Kind, tb.Extract(a.Args[0], hi, lo), tb.Extract(a.Args[1], hi, lo))
		}
	case KAdd, KSub, KMul:
		if lo == 0 {
			return tb.Bin(a.Kind, tb.Extract(a.Args[0], hi, 0), tb.Extract(a.Args[1], hi, 0))
		}
	case KIte:
		if a.Args[1].IsConst() || a.Args[2].IsConst() {
			return tb.Ite(a.Args[0], tb.Extract(a.Args[1], hi, lo), tb.Extract(a.Args[2], hi, lo))
		}
	}
	return tb.mk(KExtract, w, 0, "", []*T{a}, hi, lo)
}

func (tb *Table) Concat(h, l *T) *T {
	w := h.W + l.W
	if w > 64 {
		panic("Concat too wide")
	}
	if h.IsConst() && l.IsConst() {
		return tb.Const(w, h.Val<<uint(l.W)|l.Val)
	}
	if h.IsConst() && h.Val == 0 {
		return tb.ZExt(l, w)
	}
	if h.Kind == KExtract && l.Kind == KExtract && h.Args[0] == l.Args[0] && h.B == l.A+1 {
		return tb.Extract(h.Args[0], h.A, l.B)
	}
	return tb.mk(KConcat, w, 0, "", []*T{h, l}, 0, 0)
}

func (tb *Table) ZExt(a *T, w int) *T {
	if w == a.W {
		return a
	}
	if w < a.W {
		panic("ZExt narrowing")
	}
	if a.IsConst() {
		return tb.Const(w, a.Val)
	}
	if a.Kind == KZExt {
		return tb.ZExt(a.Args[0], w)
	}
	return tb.mk(KZExt, w, 0, "", []*T{a}, 0, 0)
}

func (tb *Table) SExt(a *T, w int) *T {
	if w == a.W {
		return a
	}
	if w < a.W {
		panic("SExt narrowing")
	}
	if a.IsConst() {
		return tb.Const(w, uint64(sext64(a.Val, a.W)))
	}
	if a.Kind == KSExt {
		return tb.SExt(a.Args[0], w)
	}
	if a.Kind == KZExt {
		return tb.ZExt(a.Args[0], w)
	}
	return tb.mk(KSExt, w, 0, "", []*T{a}, 0, 0)
}

// Resize converts a to width w, sign- or zero-extending or truncating.
func (tb *Table) Resize(a *T, w int, signed bool) *T {
	if w == a.W {
		return a
	}
	if w < a.W {
		return tb.Extract(a, w-1, 0)
	}
	if signed {
		return tb.SExt(a, w)
	}
	return tb.ZExt(a, w)
}

// BoolToBv converts a Bool to a 1/0 bit-vector of width w.
func (tb *Table) BoolToBv(c *T, w int) *T {
	return tb.Ite(c, tb.Const(w, 1), tb.Const(w, 0))
}

// ---- floating point over bit patterns ----

// Fp builds a floating point operation. Operands/results are IEEE bit patterns
// (W 32 or 64) or Bool for predicates. op is one of:
// add sub mul div neg (same width), lt le eq (Bool), f32to64 f64to32,
// s2f32 s2f64 u2f32 u2f64 (int64 -> float), f2s64 f2u64 (float -> 64-bit int, toward zero).
func (tb *Table) Fp(op string, rw int, args ...*T) *T {
	all := true
	for _, a := range args {
		if !a.IsConst() {
			all = false
		}
	}
	if all {
		if r, ok := tb.foldFp(op, rw, args); ok {
			return r
		}
	}
	return tb.mk(KFp, rw, 0, op, args, 0, 0)
}

func toF(a *T) float64 {
	if a.W == 32 {
		return float64(math.Float32frombits(uint32(a.Val)))
	}
	return math.Float64frombits(a.Val)
}

func (tb *Table) fromF(f float64, w int) *T {
	if w == 32 {
		return tb.Const(32, uint64(math.Float32bits(float32(f))))
	}
	return tb.Const(64, math.Float64bits(f))
}

func (tb *Table) foldFp(op string, rw int, a []*T) (*T, bool) {
	switch op {
	case "add", "sub", "mul", "div":
		if a[0].W == 32 {
			x, y := math.Float32frombits(uint32(a[0].Val)), math.Float32frombits(uint32(a[1].Val))
			var r float32
			switch op {
			case "add":
				r = x + y
			case "sub":
				r = x - y
			case "mul":
				r = x * y
			case "div":
				r = x / y
			}
			if r != r {
				return nil, false // NaN payload: leave to solver
			}
			return tb.Const(32, uint64(math.Float32bits(r))), true
		}
		x, y := toF(a[0]), toF(a[1])
		var r float64
		switch op {
		case "add":
			r = x + y
		case "sub":
			r = x - y
		case "mul":
			r = x * y
		case "div":
			r = x / y
		}
		if r != r {
			return nil, false
		}
		return tb.Const(64, math.Float64bits(r)), true
	case "neg":
		return tb.Const(a[0].W, a[0].Val^(uint64(1)<<uint(a[0].W-1))), true
	case "lt":
		return tb.Bool(toF(a[0]) < toF(a[1])), true
	case "le":
		return tb.Bool(toF(a[0]) <= toF(a[1])), true
	case "eq":
		return tb.Bool(toF(a[0]) == toF(a[1])), true
	case "isnan":
		f := toF(a[0])
		return tb.Bool(f != f), true
	case "f32to64":
		f := toF(a[0])
		if f != f {
			return nil, false
		}
		return tb.Const(64, math.Float64bits(f)), true
	case "f64to32":
		f := toF(a[0])
		if f != f {
			return nil, false
		}
		return tb.Const(32, uint64(math.Float32bits(float32(f)))), true
	case "s2f32", "s2f64":
		return tb.fromF(float64(a[0].Int()), rw), true
	case "u2f32", "u2f64":
		return tb.fromF(float64(a[0].Val), rw), true
	case "f2s64":
		f := toF(a[0])
		if f != f || f >= 9.2e18 || f <= -9.2e18 {
			return nil, false
		}
		return tb.Const(64, uint64(int64(f))), true
	case "f2u64":
		f := toF(a[0])
		if f != f || f >= 1.8e19 || f < 0 {
			return nil, false
		}
		return tb.Const(64, uint64(f)), true
	}
	return nil, false
}

// ---- printing ----

func sortStr(w int) string {
	if w == 0 {
		return "Bool"
	}
	return fmt.Sprintf("(_ BitVec %d)", w)
}

func SortOf(t *T) string { return sortStr(t.W) }

func constStr(w int, v uint64) string {
	if w%4 == 0 {
		return fmt.Sprintf("#x%0*x", w/4, v)
	}
	return fmt.Sprintf("#b%0*b", w, v)
}

func fpSort(w int) (int, int) {
	if w == 32 {
		return 8, 24
	}
	return 11, 53
}

// Printer renders terms to SMT-LIB2, introducing define-fun for shared or large nodes.
type Printer struct {
	Defined  map[int]bool // term id -> has define-fun tN
	// macro nesting depth of each defined term: z3 4.8.12 expands nested zero-arity define-funs
	// at cubic cost in the nesting depth (a 256-deep ite chain costs 5 s to parse), so a term
	// deeper than CutDepth is introduced as a declared constant with a defining equation instead
	depth    map[int]int
	CutDepth int
	Cuts     int
	Declared map[string]bool
	Out      *strings.Builder
	// scoped bookkeeping: what was defined/declared at each solver level
	defStack  [][]int
	declStack [][]string
}

func NewPrinter() *Printer {
	return &Printer{Defined: map[int]bool{}, depth: map[int]int{}, CutDepth: 16, Declared: map[string]bool{}, Out: &strings.Builder{},
		defStack: [][]int{nil}, declStack: [][]string{nil}}
}

// PushLevel / PopLevels mirror the solver's assertion stack so that definitions made
// inside a scope are forgotten when the scope is popped.
func (p *Printer) PushLevel() {
	p.defStack = append(p.defStack, nil)
	p.declStack = append(p.declStack, nil)
}

func (p *Printer) PopLevels(n int) {
	for i := 0; i < n && len(p.defStack) > 1; i++ {
		top := len(p.defStack) - 1
		for _, id := range p.defStack[top] {
			delete(p.Defined, id)
			delete(p.depth, id)
		}
		for _, nm := range p.declStack[top] {
			delete(p.Declared, nm)
		}
		p.defStack = p.defStack[:top]
		p.declStack = p.declStack[:top]
	}
}

// SymName returns the solver-level name for a symbol.
func SymName(name string) string { return "|" + name + "|" }

// Ref returns an expression string for t, emitting any needed declarations /
// definitions into p.Out first.
func (p *Printer) Ref(t *T) string {
	switch t.Kind {
	case KBoolConst:
		if t.Val == 1 {
			return "true"
		}
		return "false"
	case KConst:
		return constStr(t.W, t.Val)
	case KSym:
		if !p.Declared[t.Name] {
			p.Declared[t.Name] = true
			p.declStack[len(p.declStack)-1] = append(p.declStack[len(p.declStack)-1], t.Name)
			fmt.Fprintf(p.Out, "(declare-const %s %s)\n", SymName(t.Name), sortStr(t.W))
		}
		return SymName(t.Name)
	}
	if p.Defined[t.ID] {
		return fmt.Sprintf("t%d", t.ID)
	}
	args := make([]string, len(t.Args))
	d := 0
	for i, a := range t.Args {
		args[i] = p.Ref(a)
		if da := p.depth[a.ID]; da > d {
			d = da
		}
	}
	d++
	var s string
	switch t.Kind {
	case KExtract:
		s = fmt.Sprintf("((_ extract %d %d) %s)", t.A, t.B, args[0])
	case KZExt:
		s = fmt.Sprintf("((_ zero_extend %d) %s)", t.W-t.Args[0].W, args[0])
	case KSExt:
		s = fmt.Sprintf("((_ sign_extend %d) %s)", t.W-t.Args[0].W, args[0])
	case KFp:
		s = p.fpStr(t, args)
	default:
		op, ok := kindSMT[t.Kind]
		if !ok {
			panic(fmt.Sprintf("print: kind %d", t.Kind))
		}
		s = "(" + op + " " + strings.Join(args, " ") + ")"
	}
	// every compound node gets a name: keeps output linear in DAG size
	p.Defined[t.ID] = true
	p.defStack[len(p.defStack)-1] = append(p.defStack[len(p.defStack)-1], t.ID)
	if p.CutDepth > 0 && d > p.CutDepth {
		p.Cuts++
		fmt.Fprintf(p.Out, "(declare-const t%d %s)\n(assert (= t%d %s))\n", t.ID, sortStr(t.W), t.ID, s)
		d = 0
	} else {
		fmt.Fprintf(p.Out, "(define-fun t%d () %s %s)\n", t.ID, sortStr(t.W), s)
	}
	if d > 0 {
		p.depth[t.ID] = d
	}
	return fmt.Sprintf("t%d", t.ID)
}

func (p *Printer) fpStr(t *T, a []string) string {
	tofp := func(s string, w int) string {
		e, m := fpSort(w)
		return fmt.Sprintf("((_ to_fp %d %d) %s)", e, m, s)
	}
	// fp -> bits: no direct function; introduce via fresh constant constraint is
	// not possible inside a define-fun, so use the standard trick for results:
	// results of arithmetic are encoded with (fp.to_ieee_bv) which z3 and cvc5 both accept.
	tobv := func(s string) string { return "(fp.to_ieee_bv " + s + ")" }
	aw := 0
	if len(t.Args) > 0 {
		aw = t.Args[0].W
	}
	switch t.Name {
	case "add", "sub", "mul", "div":
		return tobv(fmt.Sprintf("(fp.%s RNE %s %s)", t.Name, tofp(a[0], aw), tofp(a[1], aw)))
	case "neg":
		return tobv(fmt.Sprintf("(fp.neg %s)", tofp(a[0], aw)))
	case "lt", "le", "eq":
		op := map[string]string{"lt": "fp.lt", "le": "fp.leq", "eq": "fp.eq"}[t.Name]
		return fmt.Sprintf("(%s %s %s)", op, tofp(a[0], aw), tofp(a[1], aw))
	case "isnan":
		return fmt.Sprintf("(fp.isNaN %s)", tofp(a[0], aw))
	case "f32to64":
		return tobv(fmt.Sprintf("((_ to_fp 11 53) RNE %s)", tofp(a[0], 32)))
	case "f64to32":
		return tobv(fmt.Sprintf("((_ to_fp 8 24) RNE %s)", tofp(a[0], 64)))
	case "s2f32", "s2f64":
		e, m := fpSort(t.W)
		return tobv(fmt.Sprintf("((_ to_fp %d %d) RNE %s)", e, m, a[0]))
	case "u2f32", "u2f64":
		e, m := fpSort(t.W)
		return tobv(fmt.Sprintf("((_ to_fp_unsigned %d %d) RNE %s)", e, m, a[0]))
	case "f2s64":
		return fmt.Sprintf("((_ fp.to_sbv 64) RTZ %s)", tofp(a[0], aw))
	case "f2u64":
		return fmt.Sprintf("((_ fp.to_ubv 64) RTZ %s)", tofp(a[0], aw))
	}
	panic("fp op " + t.Name)
}

// Flush returns and clears pending declarations/definitions text.
func (p *Printer) Flush() string {
	s := p.Out.String()
	p.Out.Reset()
	return s
}

// String renders a term as a tree (for debugging and evidence samples).
func (t *T) String() string {
	switch t.Kind {
	case KBoolConst:
		if t.Val == 1 {
			return "true"
		}
		return "false"
	case KConst:
		return constStr(t.W, t.Val)
	case KSym:
		return t.Name
	}
	if t.Size > 40 {
		return fmt.Sprintf("<t%d size %d>", t.ID, t.Size)
	}
	var sb strings.Builder
	switch t.Kind {
	case KExtract:
		fmt.Fprintf(&sb, "(extract %d %d", t.A, t.B)
	case KZExt:
		fmt.Fprintf(&sb, "(zext%d", t.W)
	case KSExt:
		fmt.Fprintf(&sb, "(sext%d", t.W)
	case KFp:
		fmt.Fprintf(&sb, "(fp.%s", t.Name)
	default:
		sb.WriteString("(" + kindSMT[t.Kind])
	}
	for _, a := range t.Args {
		sb.WriteString(" " + a.String())
	}
	sb.WriteString(")")
	return sb.String()
}

// Syms collects the symbols occurring in t into set.
func Syms(t *T, set map[*T]bool, seen map[int]bool) {
	if seen[t.ID] {
		return
	}
	seen[t.ID] = true
	if t.Kind == KSym {
		set[t] = true
		return
	}
	for _, a := range t.Args {
		Syms(a, set, seen)
	}
}

// Eval evaluates t under a model (symbol name -> value). Missing symbols are 0.
// Floating point nodes that cannot be folded return ok=false.
func (tb *Table) Eval(t *T, model map[string]uint64, memo map[int]*T) (*T, bool) {
	if t.IsConst() {
		return t, true
	}
	if r, ok := memo[t.ID]; ok {
		return r, r != nil
	}
	var r *T
	ok := true
	if t.Kind == KSym {
		v := model[t.Name]
		if t.W == 0 {
			r = tb.Bool(v != 0)
		} else {
			r = tb.Const(t.W, v)
		}
	} else {
		args := make([]*T, len(t.Args))
		for i, a := range t.Args {
			args[i], ok = tb.Eval(a, model, memo)
			if !ok {
				memo[t.ID] = nil
				return nil, false
			}
		}
		r = tb.rebuild(t, args)
		if !r.IsConst() {
			memo[t.ID] = nil
			return nil, false
		}
	}
	memo[t.ID] = r
	return r, true
}

func (tb *Table) rebuild(t *T, a []*T) *T {
	switch t.Kind {
	case KNot:
		return tb.Not(a[0])
	case KAnd:
		return tb.And(a[0], a[1])
	case KOr:
		return tb.Or(a[0], a[1])
	case KEq:
		return tb.Eq(a[0], a[1])
	case KIte:
		return tb.Ite(a[0], a[1], a[2])
	case KBvNot:
		return tb.BvNot(a[0])
	case KBvNeg:
		return tb.Neg(a[0])
	case KUlt, KUle, KSlt, KSle:
		return tb.Cmp(t.Kind, a[0], a[1])
	case KExtract:
		return tb.Extract(a[0], t.A, t.B)
	case KConcat:
		return tb.Concat(a[0], a[1])
	case KZExt:
		return tb.ZExt(a[0], t.W)
	case KSExt:
		return tb.SExt(a[0], t.W)
	case KFp:
		return tb.Fp(t.Name, t.W, a...)
	default:
		return tb.Bin(t.Kind, a[0], a[1])
	}
}
