// Package smt drives one persistent SMT solver process over a pipe.
package smt

import (
	"bufio"
	"fmt"
	"io"
	"os"
	"os/exec"
	"strconv"
	"strings"
	"time"

	"gosym/term"
)

type Result int

const (
	Unsat Result = iota
	Sat
	Unknown
)

func (r Result) String() string { return [...]string{"unsat", "sat", "unknown"}[r] }

type Stats struct {
	Queries  int
	Sat      int
	Unsat    int
	Unknown  int
	Errors   int
	Seconds  float64
	MaxQuery float64
	ValueSeconds float64
	ValueCalls int
}

// Solver wraps one solver process.
type Solver struct {
	cmd    *exec.Cmd
	in     io.WriteCloser
	out    *bufio.Reader
	P      *term.Printer
	seq    int
	Level  int
	Stats  Stats
	Log    io.Writer // optional transcript
	dead   bool
	Kind   string
	tmoMs  int
	dumpN  int
	DumpTo string // directory for standalone query dumps (cross-check), "" = off
	// transcript of everything asserted per level, for standalone dumps
	levelText []string
	pendingPop bool
	declText  strings.Builder
}

// New starts a solver. kind: "z3", "z3-new", "cvc5".
func New(kind string, timeoutMs int) (*Solver, error) {
	var cmd *exec.Cmd
	switch kind {
	case "z3", "z3-new":
		cmd = exec.Command(kind, "-in", fmt.Sprintf("-t:%d", timeoutMs))
	case "cvc5":
		cmd = exec.Command("cvc5", "--incremental", "--lang=smt2", fmt.Sprintf("--tlimit-per=%d", timeoutMs))
	default:
		return nil, fmt.Errorf("unknown solver %q", kind)
	}
	in, err := cmd.StdinPipe()
	if err != nil {
		return nil, err
	}
	outp, err := cmd.StdoutPipe()
	if err != nil {
		return nil, err
	}
	cmd.Stderr = os.Stderr
	if err := cmd.Start(); err != nil {
		return nil, err
	}
	s := &Solver{cmd: cmd, in: in, out: bufio.NewReaderSize(outp, 1<<16), P: term.NewPrinter(), Kind: kind, tmoMs: timeoutMs}
	s.levelText = []string{""}
	s.send("(set-option :produce-models true)\n")
	if kind == "cvc5" {
		s.send("(set-logic ALL)\n")
	}
	return s, nil
}

func (s *Solver) Close() {
	if s.dead {
		return
	}
	s.dead = true
	io.WriteString(s.in, "(exit)\n")
	s.in.Close()
	done := make(chan struct{})
	go func() { s.cmd.Wait(); close(done) }()
	select {
	case <-done:
	case <-time.After(2 * time.Second):
		s.cmd.Process.Kill()
	}
}

func (s *Solver) send(txt string) {
	if s.Log != nil {
		io.WriteString(s.Log, txt)
	}
	if _, err := io.WriteString(s.in, txt); err != nil {
		s.dead = true
	}
}

// sync sends an echo marker and reads all lines up to it.
func (s *Solver) sync() (lines []string, hadErr bool) {
	s.seq++
	mark := "@@" + strconv.Itoa(s.seq)
	s.send("(echo \"" + mark + "\")\n")
	for {
		line, err := s.out.ReadString('\n')
		if err != nil {
			s.dead = true
			return lines, true
		}
		line = strings.TrimSpace(line)
		if line == mark || line == "\""+mark+"\"" {
			return lines, hadErr
		}
		if line == "" {
			continue
		}
		if strings.Contains(line, "(error") {
			hadErr = true
			fmt.Fprintf(os.Stderr, "solver error: %s\n", line)
		}
		lines = append(lines, line)
	}
}

func (s *Solver) Push() {
	s.send("(push 1)\n")
	s.Level++
	s.P.PushLevel()
	s.levelText = append(s.levelText, "")
}

func (s *Solver) PopTo(level int) {
	if level < s.Level {
		s.send(fmt.Sprintf("(pop %d)\n", s.Level-level))
		s.P.PopLevels(s.Level - level)
		s.Level = level
		s.levelText = s.levelText[:level+1]
	}
}

func (s *Solver) flushDefs() {
	d := s.P.Flush()
	if d != "" {
		s.send(d)
		s.levelText[s.Level] += d
	}
}

// Assert adds t at the current level.
func (s *Solver) Assert(t *term.T) {
	r := s.P.Ref(t)
	s.flushDefs()
	a := "(assert " + r + ")\n"
	s.send(a)
	s.levelText[s.Level] += a
}

// CheckWith decides satisfiability of the current assertions plus extra (may be nil).
func (s *Solver) CheckWith(extra *term.T) Result {
	if s.dead {
		s.Stats.Errors++
		return Unknown
	}
	t0 := time.Now()
	var cmd string
	if extra != nil {
		r := s.P.Ref(extra)
		s.flushDefs()
		cmd = "(push 1)\n(assert " + r + ")\n(check-sat)\n"
	} else {
		s.flushDefs()
		cmd = "(check-sat)\n"
	}
	s.send(cmd)
	lines, hadErr := s.sync()
	if extra != nil {
		// keep the scope open if sat so that a model can be fetched; caller must call EndCheck
	}
	res := Unknown
	for _, l := range lines {
		switch l {
		case "sat":
			res = Sat
		case "unsat":
			res = Unsat
		case "unknown":
			res = Unknown
		}
	}
	if hadErr {
		res = Unknown
		s.Stats.Errors++
	}
	dt := time.Since(t0).Seconds()
	s.Stats.Queries++
	s.Stats.Seconds += dt
	if dt > s.Stats.MaxQuery {
		s.Stats.MaxQuery = dt
	}
	switch res {
	case Sat:
		s.Stats.Sat++
	case Unsat:
		s.Stats.Unsat++
	default:
		s.Stats.Unknown++
	}
	if s.DumpTo != "" && s.dumpN < 400 && s.Stats.Queries%7 == 0 {
		s.dump(cmd, res)
	}
	s.pendingPop = extra != nil
	return res
}

// pendingPop is true while a CheckWith(extra) scope is still open.
func (s *Solver) dump(cmd string, res Result) {
	s.dumpN++
	var sb strings.Builder
	sb.WriteString("; expect " + res.String() + "\n(set-logic ALL)\n")
	sb.WriteString(s.declText.String())
	for _, l := range s.levelText {
		sb.WriteString(l)
	}
	sb.WriteString(strings.Replace(cmd, "(push 1)\n", "", 1))
	os.WriteFile(fmt.Sprintf("%s/q%04d_%s.smt2", s.DumpTo, s.dumpN, res), []byte(sb.String()), 0o644)
}

// Values fetches model values of the given symbols (after a Sat result, before EndCheck).
func (s *Solver) Values(syms []*term.T) (map[string]uint64, bool) {
	t0 := time.Now()
	defer func() { s.Stats.ValueSeconds += time.Since(t0).Seconds(); s.Stats.ValueCalls++ }()
	m := map[string]uint64{}
	var decl []*term.T
	for _, t := range syms {
		if s.P.Declared[t.Name] {
			decl = append(decl, t)
		}
	}
	syms = decl
	if len(syms) == 0 {
		return m, true
	}
	// batch in groups to keep lines short
	for i := 0; i < len(syms); i += 50 {
		j := i + 50
		if j > len(syms) {
			j = len(syms)
		}
		var sb strings.Builder
		sb.WriteString("(get-value (")
		for _, t := range syms[i:j] {
			sb.WriteString(term.SymName(t.Name) + " ")
		}
		sb.WriteString("))\n")
		s.send(sb.String())
		lines, hadErr := s.sync()
		if hadErr {
			return m, false
		}
		txt := strings.Join(lines, " ")
		if !parseValues(txt, m) {
			return m, false
		}
	}
	return m, true
}

func parseValues(txt string, m map[string]uint64) bool {
	// ((|name| #x..) (|n2| true) ...)
	i := 0
	n := len(txt)
	for i < n {
		// find next '|'
		j := strings.IndexByte(txt[i:], '|')
		if j < 0 {
			break
		}
		j += i
		k := strings.IndexByte(txt[j+1:], '|')
		if k < 0 {
			return false
		}
		k += j + 1
		name := txt[j+1 : k]
		rest := strings.TrimLeft(txt[k+1:], " ")
		// value token up to ')'
		e := strings.IndexByte(rest, ')')
		if e < 0 {
			return false
		}
		tok := strings.TrimSpace(rest[:e])
		var v uint64
		switch {
		case tok == "true":
			v = 1
		case tok == "false":
			v = 0
		case strings.HasPrefix(tok, "#x"):
			x, err := strconv.ParseUint(tok[2:], 16, 64)
			if err != nil {
				return false
			}
			v = x
		case strings.HasPrefix(tok, "#b"):
			x, err := strconv.ParseUint(tok[2:], 2, 64)
			if err != nil {
				return false
			}
			v = x
		case strings.HasPrefix(tok, "(_ bv"):
			f := strings.Fields(tok[5:])
			x, err := strconv.ParseUint(f[0], 10, 64)
			if err != nil {
				return false
			}
			v = x
		default:
			return false
		}
		m[name] = v
		i = k + 1 + (len(txt[k+1:]) - len(rest)) + e + 1
	}
	return true
}

// EndCheck closes the scope opened by CheckWith(extra != nil).
func (s *Solver) EndCheck() {
	if s.pendingPop {
		s.send("(pop 1)\n")
		s.pendingPop = false
	}
}
