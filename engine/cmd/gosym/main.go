// gosym: bounded symbolic execution of Go functions from go/ssa with an SMT solver.
package main

import (
	"encoding/json"
	"flag"
	"fmt"
	"os"
	"runtime/pprof"
	"sort"
	"strings"
	"time"

	"golang.org/x/tools/go/packages"
	"golang.org/x/tools/go/ssa"
	"golang.org/x/tools/go/ssa/ssautil"

	"gosym/exec"
)

// Spec is one harness entry with its bounds.
type Spec struct {
	Entry           string   `json:"entry"`
	Unwind          int      `json:"unwind"`
	MaxSteps        int      `json:"max_steps"`
	MaxDepth        int      `json:"max_depth"`
	MaxAlloc        int64    `json:"max_alloc"`
	MaxPaths        int      `json:"max_paths"`
	AllocViolation  bool     `json:"alloc_violation"`
	UnwindViolation bool     `json:"unwind_violation"`
	PanicOK         bool     `json:"panic_ok"`
	Preempt         int      `json:"preempt"`
	RaceFields      []string `json:"race_fields"`
	NoOps           []string `json:"noops"`
	TimerAnyTime    bool     `json:"timer_any_time"`
	BudgetS         int      `json:"budget_s"`
	SkipInit        []string `json:"skip_init"`
	GoAsCall        []string `json:"go_as_call"`
	ConcretizeDiv   []string `json:"concretize_div"`
	StubError       []string `json:"stub_error"`
	RealLogger      bool     `json:"real_logger"`
	RealFuncs       []string `json:"real_funcs"`
	Redirect        map[string]string `json:"redirect"`
	Note            string   `json:"note"`
}

type Out struct {
	Spec        Spec              `json:"spec"`
	Paths       int               `json:"paths"`
	PathsOK     int               `json:"paths_ok"`
	Infeasible  int               `json:"infeasible"`
	Nontrivial  int               `json:"nontrivial_paths"`
	BoundHits   map[string]int    `json:"bound_hits"`
	Unsupported map[string]int    `json:"unsupported"`
	Violations  []*exec.Violation `json:"violations"`
	ChecksSym   int               `json:"checks_symbolic"`
	ChecksProv  int               `json:"checks_proved"`
	ChecksConc  int               `json:"checks_concrete"`
	Reach       map[string]int    `json:"reach"`
	FuncsRepo   []string          `json:"funcs_repo"`
	FuncsStd    []string          `json:"funcs_std"`
	FuncsHarn   []string          `json:"funcs_harness"`
	Stubs       map[string]int    `json:"stubs"`
	Queries     int               `json:"queries"`
	QSat        int               `json:"q_sat"`
	QUnsat      int               `json:"q_unsat"`
	QUnknown    int               `json:"q_unknown"`
	QErrors     int               `json:"q_errors"`
	SolverS     float64           `json:"solver_s"`
	MaxQueryS   float64           `json:"max_query_s"`
	Unknowns    int               `json:"unknowns"`
	Steps       int64             `json:"steps"`
	Samples     []exec.PathSample `json:"samples"`
	Warnings    map[string]int    `json:"warnings"`
	WallS       float64           `json:"wall_s"`
	Schedules   int               `json:"schedule_choices"`
	MaxDepth    int               `json:"max_depth_seen"`
	Incomplete  string            `json:"incomplete"`
	Error       string            `json:"error"`
}

func main() {
	repo := flag.String("repo", "", "directory of the (scratch) repository copy")
	pkgPath := flag.String("pkg", "", "package pattern containing the harness")
	specFile := flag.String("spec", "", "JSON list of harness specs")
	entry := flag.String("entry", "", "single entry (instead of -spec)")
	outFile := flag.String("out", "", "output JSON")
	solver := flag.String("solver", "z3", "z3 | z3-new | cvc5")
	timeout := flag.Int("timeout", 20000, "solver timeout per query (ms)")
	workers := flag.Int("workers", 16, "parallel workers")
	unwind := flag.Int("unwind", 64, "")
	steps := flag.Int("steps", 2000000, "")
	depth := flag.Int("depth", 200, "")
	alloc := flag.Int64("alloc", 4096, "")
	verbose := flag.Bool("v", false, "")
	dump := flag.String("dump", "", "directory for standalone query dumps")
	tags := flag.String("tags", "", "build tags")
	seed := flag.Int64("seed", 0, "")
	selfcheck := flag.Bool("selfcheck", false, "vacuity twin: every Reach is reported as a violation")
	cpuprof := flag.String("cpuprofile", "", "")
	tracecap := flag.Int("tracecap", 60, "events kept in violation traces")
	restart := flag.Int("restart", 50, "restart solver every N paths")
	flag.Parse()
	exec.SetTraceCap(*tracecap)
	if *cpuprof != "" {
		f, _ := os.Create(*cpuprof)
		pprof.StartCPUProfile(f)
		defer pprof.StopCPUProfile()
	}

	var specs []Spec
	if *specFile != "" {
		b, err := os.ReadFile(*specFile)
		if err != nil {
			fatal(err)
		}
		if err := json.Unmarshal(b, &specs); err != nil {
			fatal(err)
		}
	} else {
		for _, en := range strings.Split(*entry, ",") {
			specs = append(specs, Spec{Entry: en})
		}
	}
	t0 := time.Now()
	cfg := &packages.Config{Mode: packages.LoadAllSyntax, Dir: *repo, Tests: false,
		Env: append(os.Environ(), "GOFLAGS=-mod=mod", "GOPROXY=off", "GOSUMDB=off", "GOTOOLCHAIN=local")}
	if *tags != "" {
		cfg.BuildFlags = []string{"-tags=" + *tags}
	}
	pkgs, err := packages.Load(cfg, *pkgPath)
	if err != nil {
		fatal(err)
	}
	if packages.PrintErrors(pkgs) > 0 {
		fatal(fmt.Errorf("package errors"))
	}
	prog, ssapkgs := ssautil.AllPackages(pkgs, ssa.InstantiateGenerics)
	prog.Build()
	fmt.Fprintf(os.Stderr, "loaded+built in %.1fs\n", time.Since(t0).Seconds())
	var mainPkg *ssa.Package
	for _, p := range ssapkgs {
		if p != nil {
			mainPkg = p
			break
		}
	}
	if mainPkg == nil {
		fatal(fmt.Errorf("no package"))
	}
	var outs []Out
	for _, sp := range specs {
		fn := mainPkg.Func(sp.Entry)
		o := Out{Spec: sp}
		if fn == nil {
			o.Error = "entry not found: " + sp.Entry
			outs = append(outs, o)
			continue
		}
		c := exec.Config{Unwind: pick(sp.Unwind, *unwind), MaxSteps: pick(sp.MaxSteps, *steps), MaxDepth: pick(sp.MaxDepth, *depth),
			MaxAlloc: pick64(sp.MaxAlloc, *alloc), MaxPaths: sp.MaxPaths, Solver: *solver, TimeoutMs: *timeout, Workers: *workers,
			AllocViolation: sp.AllocViolation, UnwindViolation: sp.UnwindViolation, PanicOK: sp.PanicOK, Preempt: sp.Preempt,
			RaceFields: sp.RaceFields, NoOps: sp.NoOps, TimerAnyTime: sp.TimerAnyTime, Verbose: *verbose, DumpDir: *dump, Seed: *seed, SelfCheck: *selfcheck, RestartEvery: *restart, SkipInit: sp.SkipInit, GoAsCall: sp.GoAsCall, ConcretizeDiv: sp.ConcretizeDiv, StubError: sp.StubError, RealLogger: sp.RealLogger, RealFuncs: sp.RealFuncs, Redirect: sp.Redirect}
		if sp.BudgetS > 0 {
			c.Deadline = time.Now().Add(time.Duration(sp.BudgetS) * time.Second)
		}
		res, err := exec.Explore(prog, fn, c)
		if err != nil {
			o.Error = err.Error()
		}
		if res != nil {
			o.Paths, o.PathsOK, o.Infeasible, o.Nontrivial = res.Paths, res.PathsOK, res.Infeasible, res.NontrivPaths
			o.BoundHits, o.Unsupported, o.Violations = res.BoundHits, res.Unsupported, res.Violations
			o.ChecksSym, o.ChecksProv, o.ChecksConc = res.ChecksSym, res.ChecksProved, res.ChecksConc
			o.Reach, o.Stubs, o.Warnings = res.Reach, res.Stubs, res.Warnings
			for f := range res.Funcs {
				switch {
				case strings.Contains(f, "Verif") || strings.Contains(f, "/vapi.") || strings.Contains(f, "verif"):
					o.FuncsHarn = append(o.FuncsHarn, f)
				case strings.Contains(f, "github.com/TarsCloud/TarsGo"):
					o.FuncsRepo = append(o.FuncsRepo, f)
				default:
					o.FuncsStd = append(o.FuncsStd, f)
				}
			}
			sort.Strings(o.FuncsRepo)
			sort.Strings(o.FuncsStd)
			sort.Strings(o.FuncsHarn)
			o.Queries, o.QSat, o.QUnsat, o.QUnknown, o.QErrors = res.Stats.Queries, res.Stats.Sat, res.Stats.Unsat, res.Stats.Unknown, res.Stats.Errors
			o.SolverS, o.MaxQueryS, o.Unknowns, o.Steps = res.Stats.Seconds, res.Stats.MaxQuery, res.Unknowns, res.Steps
			o.Samples, o.WallS, o.Schedules, o.MaxDepth, o.Incomplete = res.Samples, res.Wall, res.Schedules, res.MaxDepthSeen, res.Incomplete
		}

		fmt.Fprintf(os.Stderr, "%s: paths=%d ok=%d infeasible=%d violations=%d bound=%v unsupported=%v queries=%d unknown=%d wall=%.1fs\n",
			sp.Entry, o.Paths, o.PathsOK, o.Infeasible, len(o.Violations), o.BoundHits, o.Unsupported, o.Queries, o.QUnknown+o.Unknowns, o.WallS)
		for _, v := range o.Violations {
			fmt.Fprintf(os.Stderr, "  VIOL %s %s @%s: %s\n", v.Kind, v.Label, v.Site, v.Message)
		}
		outs = append(outs, o)
	}
	b, _ := json.MarshalIndent(outs, "", " ")
	if *outFile != "" {
		if err := os.WriteFile(*outFile, b, 0o644); err != nil {
			fatal(err)
		}
	} else {
		os.Stdout.Write(b)
	}
}

func pick(a, b int) int {
	if a != 0 {
		return a
	}
	return b
}
func pick64(a, b int64) int64 {
	if a != 0 {
		return a
	}
	return b
}

func fatal(err error) {
	fmt.Fprintln(os.Stderr, "gosym:", err)
	os.Exit(2)
}
