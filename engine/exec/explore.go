package exec

import (
	"fmt"
	"go/types"
	"os"
	"sort"
	"strings"
	"sync"
	"time"

	"golang.org/x/tools/go/ssa"

	"gosym/smt"
	"gosym/term"
)

// Config holds the bounds and options of one harness run.
type Config struct {
	Unwind    int   // max visits of a loop head per activation
	MaxSteps  int   // max instructions per path
	MaxDepth  int   // max call depth
	MaxAlloc  int64 // max cells per allocation
	MaxPaths  int   // safety valve (0 = unlimited)
	Solver    string
	TimeoutMs int
	Workers   int
	Seed      int64
	// AllocViolation: an allocation larger than MaxAlloc is a violation (C05) rather than a bound hit.
	AllocViolation bool
	// UnwindViolation: exceeding Unwind/MaxSteps is a violation candidate (termination properties).
	UnwindViolation bool
	// PanicOK: uncaught panic ends the path quietly (harness handles panics itself otherwise).
	PanicOK     bool
	Preempt     int // preemption bound for concurrent harnesses
	RaceFields  []string
	DumpDir     string
	Verbose     bool
	NoOps       []string // extra function-name prefixes treated as no-ops
	TimerAnyTime bool    // virtual timers may fire at any scheduling point
	Deadline    time.Time
	SelfCheck   bool
	RestartEvery int
	Redirect    map[string]string // callee full name -> harness function (same signature) in the entry package
	RealLogger  bool // execute rogger.Logger methods instead of treating them as no-ops
	RealFuncs   []string // functions executed for real although the engine has an intrinsic for them
	StubError   []string // functions (name prefixes) replaced by: zero results with an arbitrary nil / non-nil error
	SkipInit    []string // repo packages whose initialisers are not run (globals stay zero)
	ConcretizeDiv []string // function-name prefixes: integer quotients computed there are case-split by value
	GoAsCall    []string // function-name prefixes: `go f()` runs f synchronously (program order = hand-off order)
}

type entryKind uint8

const (
	lkBranch entryKind = iota // solver-decided branch
	lkAssume
	lkCheck
	lkValue
	lkChoice // solver-independent n-way choice (schedules, select cases)
)

type logEntry struct {
	kind    entryKind
	dir     bool // branch: side taken; assume: feasible; check: held
	choice  bool // branch: both sides feasible
	pending bool // other side still to explore
	level   int  // solver level of the assertion made for this entry (0 = none)
	val     uint64
	unknown bool
	base    int     // solver level before this entry
	alts    []uint8 // lkChoice: values still to explore
}

// Violation is a counterexample found by the solver.
func (c *Config) realFunc(name string) bool {
	for _, f := range c.RealFuncs {
		if f == name {
			return true
		}
	}
	return false
}

type Violation struct {
	Label   string
	Kind    string // check | panic | exit | alloc | unwind | deadlock
	Site    string
	Message string
	Vector  []SymValue
	// further witnesses of the same violation (other paths): native confirmation may depend on
	// real timing, so the driver tries them in turn when the first does not reproduce
	Alt     [][]SymValue
	Trace   []string
	Harness string
}

// addAlt keeps up to 4 further witnesses whose input values differ from those already kept
func (v *Violation) addAlt(vec []SymValue) {
	if len(v.Alt) >= 4 {
		return
	}
	same := func(a, b []SymValue) bool {
		if len(a) != len(b) {
			return false
		}
		for i := range a {
			if a[i] != b[i] {
				return false
			}
		}
		return true
	}
	if same(v.Vector, vec) {
		return
	}
	for _, a := range v.Alt {
		if same(a, vec) {
			return
		}
	}
	v.Alt = append(v.Alt, vec)
}

type SymValue struct {
	Name  string `json:"name"`
	Width int    `json:"width"`
	Value uint64 `json:"value"`
}

func (v *Violation) Key() string { return v.Kind + "|" + v.Label + "|" + v.Site }

type pathAbort struct {
	reason string
	detail string
}

type symRec struct {
	name string
	t    *term.T
}

// Result aggregates one exploration.
type Result struct {
	Harness       string
	Paths         int
	PathsOK       int
	Infeasible    int
	BoundHits     map[string]int
	Unsupported   map[string]int
	Violations    []*Violation
	ChecksProved  int
	ChecksSym     int // checks over symbolic operands discharged by solver
	ChecksConc    int // checks that folded to constants
	NontrivPaths  int
	Reach         map[string]int
	Funcs         map[string]bool
	Stubs         map[string]int
	Stats         smt.Stats
	Unknowns      int
	Steps         int64
	Samples       []PathSample
	Warnings      map[string]int
	Wall          float64
	Schedules     int
	MaxDepthSeen  int
	Incomplete    string
}

type PathSample struct {
	End     string     `json:"end"`
	Reach   []string   `json:"reach,omitempty"`
	Witness []SymValue `json:"witness"`
	Checks  int        `json:"checks"`
}

func newResult() *Result {
	return &Result{BoundHits: map[string]int{}, Unsupported: map[string]int{}, Reach: map[string]int{},
		Funcs: map[string]bool{}, Stubs: map[string]int{}, Warnings: map[string]int{}}
}

func (r *Result) merge(o *Result) {
	r.Paths += o.Paths
	r.PathsOK += o.PathsOK
	r.Infeasible += o.Infeasible
	for k, v := range o.BoundHits {
		r.BoundHits[k] += v
	}
	for k, v := range o.Unsupported {
		r.Unsupported[k] += v
	}
	seen := map[string]bool{}
	for _, v := range r.Violations {
		seen[v.Key()] = true
	}
	for _, v := range o.Violations {
		if !seen[v.Key()] {
			seen[v.Key()] = true
			r.Violations = append(r.Violations, v)
			continue
		}
		for _, have := range r.Violations {
			if have.Key() == v.Key() {
				for _, a := range append([][]SymValue{v.Vector}, v.Alt...) {
					have.addAlt(a)
				}
			}
		}
	}
	r.ChecksProved += o.ChecksProved
	r.ChecksSym += o.ChecksSym
	r.ChecksConc += o.ChecksConc
	r.NontrivPaths += o.NontrivPaths
	for k, v := range o.Reach {
		r.Reach[k] += v
	}
	for k := range o.Funcs {
		r.Funcs[k] = true
	}
	for k, v := range o.Stubs {
		r.Stubs[k] += v
	}
	for k, v := range o.Warnings {
		r.Warnings[k] += v
	}
	r.Stats.Queries += o.Stats.Queries
	r.Stats.Sat += o.Stats.Sat
	r.Stats.Unsat += o.Stats.Unsat
	r.Stats.Unknown += o.Stats.Unknown
	r.Stats.Errors += o.Stats.Errors
	r.Stats.Seconds += o.Stats.Seconds
	r.Stats.ValueSeconds += o.Stats.ValueSeconds
	r.Stats.ValueCalls += o.Stats.ValueCalls
	if o.Stats.MaxQuery > r.Stats.MaxQuery {
		r.Stats.MaxQuery = o.Stats.MaxQuery
	}
	r.Unknowns += o.Unknowns
	r.Steps += o.Steps
	if len(r.Samples) < 12 {
		r.Samples = append(r.Samples, o.Samples...)
		if len(r.Samples) > 12 {
			r.Samples = r.Samples[:12]
		}
	}
	r.Schedules += o.Schedules
	if o.MaxDepthSeen > r.MaxDepthSeen {
		r.MaxDepthSeen = o.MaxDepthSeen
	}
	if o.Incomplete != "" {
		r.Incomplete = o.Incomplete
	}
}

// Engine is one worker: term table, solver, interpreter state.
type Engine struct {
	prog   *ssa.Program
	shared *Shared
	cfg    Config
	tb     *term.Table
	solver *smt.Solver

	layouts    map[types.Type]*layoutInfo
	strCache   map[string]String
	constCache map[*ssa.Const]Value
	fnInfos    map[*ssa.Function]*fnInfo
	intrCache  map[*ssa.Function]string
	objSeq     int
	pathsSinceRestart int
	entryPkg   *ssa.Package
	model      map[string]uint64
	modelValid bool
	ModelHits  int

	// persistent (once per engine) stdlib state
	persistGlobals   map[*ssa.Global]*Object
	persistInitDone  map[*ssa.Package]bool
	inPersistentInit bool

	// per-path state
	log      []logEntry
	logPos   int
	syms     []symRec
	symCount map[string]int
	p        *pathState
	res      *Result
}

// Shared is the cross-worker state.
type Shared struct {
	Prog      *ssa.Program
	mu        sync.Mutex
	cond      *sync.Cond
	tasks     [][]logEntry
	idle      int
	workers   int
	done      bool
	pathCount int
	stop      bool
	methodMu  sync.Mutex
}

func NewEngine(sh *Shared, cfg Config) (*Engine, error) {
	s, err := smt.New(cfg.Solver, cfg.TimeoutMs)
	if err != nil {
		return nil, err
	}
	s.DumpTo = cfg.DumpDir
	e := &Engine{prog: sh.Prog, shared: sh, cfg: cfg, tb: term.NewTable(), solver: s,
		layouts: map[types.Type]*layoutInfo{}, strCache: map[string]String{}, constCache: map[*ssa.Const]Value{},
		fnInfos: map[*ssa.Function]*fnInfo{}, persistGlobals: map[*ssa.Global]*Object{}, persistInitDone: map[*ssa.Package]bool{},
		res: newResult()}
	return e, nil
}

// ---------- solver glue ----------

func (e *Engine) abort(reason, detail string) {
	panic(pathAbort{reason, detail})
}

func (e *Engine) query(c *term.T) smt.Result {
	r := e.solver.CheckWith(c)
	e.solver.EndCheck()
	return r
}

func (e *Engine) ensureAsserted(en *logEntry, c *term.T) {
	if en.level == 0 {
		return
	}
	if e.solver.Level >= en.level {
		return
	}
	if e.solver.Level != en.level-1 {
		panic(fmt.Sprintf("solver level misaligned: have %d want %d", e.solver.Level, en.level-1))
	}
	e.solver.Push()
	e.solver.Assert(c)
}

func (e *Engine) nextLevel() int {
	// level of the next assertion = number of asserting entries so far + 1
	return e.p.levels + 1
}

// ensureModel makes e.model a satisfying assignment of the current path condition.
func (e *Engine) ensureModel() bool {
	if e.modelValid {
		return true
	}
	r := e.solver.CheckWith(nil)
	if r != smt.Sat {
		e.solver.EndCheck()
		return false
	}
	var syms []*term.T
	for _, s := range e.syms {
		syms = append(syms, s.t)
	}
	m, ok := e.solver.Values(syms)
	e.solver.EndCheck()
	if !ok {
		return false
	}
	e.model = m
	e.modelValid = true
	return true
}

// fetchModel reads the model of the open (sat) CheckWith scope.
func (e *Engine) fetchModel() bool {
	var syms []*term.T
	for _, s := range e.syms {
		syms = append(syms, s.t)
	}
	m, ok := e.solver.Values(syms)
	if ok {
		e.model = m
		e.modelValid = true
	} else {
		e.modelValid = false
	}
	return ok
}

// evalModel evaluates a Bool term under the cached model.
func (e *Engine) evalModel(c *term.T) (bool, bool) {
	if !e.modelValid {
		return false, false
	}
	v, ok := e.tb.Eval(c, e.model, map[int]*term.T{})
	if !ok {
		return false, false
	}
	return v.Val == 1, true
}

// Branch decides which way to go on condition c, forking when both are feasible.
func (e *Engine) Branch(c *term.T) bool {
	if c.Kind == term.KBoolConst {
		return c.Val == 1
	}
	if e.logPos < len(e.log) {
		en := &e.log[e.logPos]
		e.logPos++
		if en.kind != lkBranch {
			panic(fmt.Sprintf("log desync: expected branch got kind %d at %d", en.kind, e.logPos-1))
		}
		if en.level != 0 {
			e.p.levels++
			if en.dir {
				e.ensureAsserted(en, c)
			} else {
				e.ensureAsserted(en, e.tb.Not(c))
			}
		}
		if en.unknown {
			e.p.unknown = true
		}
		return en.dir
	}
	en := logEntry{kind: lkBranch}
	e.ensureModel()
	if mv, ok := e.evalModel(c); ok {
		// the model already witnesses one side; only the other side needs a query
		e.ModelHits++
		other := c
		if mv {
			other = e.tb.Not(c)
		}
		ro := e.query(other)
		if ro == smt.Unknown {
			en.unknown = true
			e.p.unknown = true
			e.res.Unknowns++
		}
		en.dir = mv
		if ro != smt.Unsat {
			en.choice = true
			en.pending = true
		}
	} else {
		rt := e.query(c)
		if rt == smt.Unsat {
			en.dir = false
		} else {
			rf := e.query(e.tb.Not(c))
			if rt == smt.Unknown || rf == smt.Unknown {
				en.unknown = true
				e.p.unknown = true
				e.res.Unknowns++
			}
			if rf == smt.Unsat {
				en.dir = true
			} else {
				en.dir = true
				en.choice = true
				en.pending = true
			}
		}
		e.modelValid = false
	}
	if en.choice {
		e.p.levels++
		en.level = e.p.levels
	}
	e.log = append(e.log, en)
	e.logPos++
	if en.choice {
		if en.dir {
			e.ensureAsserted(&e.log[len(e.log)-1], c)
		} else {
			e.ensureAsserted(&e.log[len(e.log)-1], e.tb.Not(c))
		}
	}
	return en.dir
}

// Assume constrains the path; an infeasible assumption ends the path silently.
func (e *Engine) Assume(c *term.T) {
	if c.Kind == term.KBoolConst {
		if c.Val == 0 {
			e.abort("infeasible", "assume(false)")
		}
		return
	}
	if e.logPos < len(e.log) {
		en := &e.log[e.logPos]
		e.logPos++
		if en.kind != lkAssume {
			panic("log desync: expected assume")
		}
		if !en.dir {
			e.abort("infeasible", "assume")
		}
		e.p.levels++
		e.ensureAsserted(en, c)
		return
	}
	var r smt.Result
	if mv, ok := e.evalModel(c); ok && mv {
		r = smt.Sat
		e.ModelHits++
	} else {
		r = e.solver.CheckWith(c)
		if r == smt.Sat {
			e.fetchModel()
		} else {
			e.modelValid = false
		}
		e.solver.EndCheck()
	}
	en := logEntry{kind: lkAssume, dir: r != smt.Unsat}
	if r == smt.Unknown {
		e.p.unknown = true
		e.res.Unknowns++
	}
	if en.dir {
		e.p.levels++
		en.level = e.p.levels
	}
	e.log = append(e.log, en)
	e.logPos++
	if !en.dir {
		e.abort("infeasible", "assume")
	}
	e.ensureAsserted(&e.log[len(e.log)-1], c)
}

// Check is an assertion: a satisfiable negation is a violation with a model.
func (e *Engine) Check(c *term.T, label, site string) {
	if c.Kind == term.KBoolConst {
		if c.Val == 1 {
			e.res.ChecksConc++
			e.p.checks++
			return
		}
		// concretely false on a feasible path: violation with current model
		e.recordViolation("check", label, site, "assertion is false on this path", nil)
		e.abort("violation", label)
	}
	if e.logPos < len(e.log) {
		en := &e.log[e.logPos]
		e.logPos++
		if en.kind != lkCheck {
			panic("log desync: expected check")
		}
		if !en.dir {
			// violated earlier on this prefix; continue under the assumption that it holds
		}
		e.p.checks++
		e.p.symChecks++
		e.Assume(c)
		return
	}
	notc := e.tb.Not(c)
	r := e.solver.CheckWith(notc)
	en := logEntry{kind: lkCheck, dir: r == smt.Unsat}
	switch r {
	case smt.Sat:
		e.recordViolationFromSolver("check", label, site, "assertion can fail")
	case smt.Unknown:
		e.p.unknown = true
		e.res.Unknowns++
		en.dir = true
		en.unknown = true
	default:
		e.res.ChecksProved++
	}
	e.solver.EndCheck()
	e.res.ChecksSym++
	e.p.checks++
	e.p.symChecks++
	e.log = append(e.log, en)
	e.logPos++
	e.Assume(c)
}

// ModelValue returns some feasible value of t under the current path condition.
func (e *Engine) modelValue(t *term.T) uint64 {
	if e.logPos < len(e.log) {
		en := &e.log[e.logPos]
		e.logPos++
		if en.kind != lkValue {
			panic("log desync: expected value")
		}
		return en.val
	}
	if !e.ensureModel() {
		e.res.Unknowns++
		e.abort("unknown", "model query not sat")
	}
	v, ok2 := e.tb.Eval(t, e.model, map[int]*term.T{})
	if !ok2 {
		e.abort("unknown", "cannot evaluate term under model")
	}
	e.log = append(e.log, logEntry{kind: lkValue, val: v.Val})
	e.logPos++
	return v.Val
}

// Implied reports whether the path condition implies c (no forking; result is logged).
func (e *Engine) Implied(c *term.T) bool {
	if c.Kind == term.KBoolConst {
		return c.Val == 1
	}
	if e.logPos < len(e.log) {
		en := &e.log[e.logPos]
		e.logPos++
		if en.kind != lkValue {
			panic("log desync: expected value (implied)")
		}
		return en.val == 1
	}
	r := e.query(e.tb.Not(c))
	v := uint64(0)
	if r == smt.Unsat {
		v = 1
	}
	e.log = append(e.log, logEntry{kind: lkValue, val: v})
	e.logPos++
	return v == 1
}

// Concretize forks over the feasible values of t and returns the chosen one.
func (e *Engine) Concretize(t *term.T, what string) uint64 {
	for n := 0; ; n++ {
		if t.IsConst() {
			return t.Val
		}
		if n > 4096 {
			e.abort("bound", "concretize: too many values for "+what)
		}
		if n == 300 && e.cfg.Verbose {
			fmt.Fprintf(os.Stderr, "concretize %s: many values, term %s\n%s\n", what, t, e.stackString())
		}
		v := e.modelValue(t)
		var c *term.T
		if t.W == 0 {
			c = t
			if v == 0 {
				c = e.tb.Not(t)
			}
		} else {
			c = e.tb.Eq(t, e.tb.Const(t.W, v))
		}
		if e.Branch(c) {
			return v
		}
	}
}

func (e *Engine) currentModel() ([]SymValue, bool) {
	var syms []*term.T
	for _, s := range e.syms {
		syms = append(syms, s.t)
	}
	m, ok := e.solver.Values(syms)
	if !ok {
		return nil, false
	}
	out := make([]SymValue, len(e.syms))
	for i, s := range e.syms {
		out[i] = SymValue{Name: s.name, Width: s.t.W, Value: m[s.t.Name]}
	}
	return out, true
}

func (e *Engine) recordViolationFromSolver(kind, label, site, msg string) {
	vec, ok := e.currentModel()
	if !ok {
		e.res.Unknowns++
		return
	}
	e.addViolation(kind, label, site, msg, vec)
}

// recordViolation is used when the path itself is the violation (panic, exit, ...).
func (e *Engine) recordViolation(kind, label, site, msg string, _ interface{}) {
	r := e.solver.CheckWith(nil)
	if r != smt.Sat {
		e.solver.EndCheck()
		e.res.Unknowns++
		return
	}
	vec, ok := e.currentModel()
	e.solver.EndCheck()
	if !ok {
		e.res.Unknowns++
		return
	}
	e.addViolation(kind, label, site, msg, vec)
}

func (e *Engine) addViolation(kind, label, site, msg string, vec []SymValue) {
	v := &Violation{Label: label, Kind: kind, Site: site, Message: msg, Vector: vec, Harness: e.res.Harness}
	if e.p != nil {
		v.Trace = append(v.Trace, e.p.trace...)
		if len(e.p.gs) > 1 {
			for _, g := range e.p.gs {
				st := [...]string{"runnable", "blocked", "done"}[g.status]
				w := ""
				if g.wait != nil {
					w = " on " + g.wait.what
				}
				v.Trace = append(v.Trace, fmt.Sprintf("goroutine %d (%s): %s%s at %s", g.id, g.name, st, w, e.siteOf(g.top)))
			}
		}
	}
	for _, o := range e.res.Violations {
		if o.Key() == v.Key() {
			o.addAlt(vec)
			return
		}
	}
	e.res.Violations = append(e.res.Violations, v)
}

// NewSym creates a fresh path-local symbol.
func (e *Engine) NewSym(name string, w int) *term.T {
	k := e.symCount[name]
	e.symCount[name] = k + 1
	full := fmt.Sprintf("%s#%d", name, k)
	t := e.tb.Sym(fmt.Sprintf("%s_w%d", full, w), w)
	e.syms = append(e.syms, symRec{full, t})
	return t
}

func (e *Engine) restartEvery() int {
	if e.cfg.RestartEvery > 0 {
		return e.cfg.RestartEvery
	}
	return 50
}

// restartSolver replaces the solver process (its global definitions grow without bound);
// the next run re-asserts the path prefix level by level.
func (e *Engine) restartSolver() {
	e.pathsSinceRestart = 0
	old := e.solver
	s, err := smt.New(e.cfg.Solver, e.cfg.TimeoutMs)
	if err != nil {
		return
	}
	s.DumpTo = old.DumpTo
	s.Stats = old.Stats
	old.Close()
	e.solver = s
}

// ---------- DFS driver ----------

// backtrack flips the deepest pending choice; false when exhausted.
func (e *Engine) backtrack() bool {
	e.modelValid = false
	for i := len(e.log) - 1; i >= 0; i-- {
		en := &e.log[i]
		if en.kind == lkBranch && en.choice && en.pending {
			en.pending = false
			en.dir = !en.dir
			e.log = e.log[:i+1]
			e.solver.PopTo(en.level - 1)
			return true
		}
		if en.kind == lkChoice && len(en.alts) > 0 {
			en.val = uint64(en.alts[0])
			en.alts = append([]uint8{}, en.alts[1:]...)
			e.log = e.log[:i+1]
			e.solver.PopTo(en.base)
			return true
		}
	}
	return false
}

// donate hands the shallowest pending alternative to the shared queue.
func (e *Engine) donate() {
	sh := e.shared
	sh.mu.Lock()
	defer sh.mu.Unlock()
	if sh.idle == 0 || len(sh.tasks) >= sh.idle {
		return
	}
	for i := range e.log {
		en := &e.log[i]
		if en.kind == lkBranch && en.choice && en.pending {
			task := make([]logEntry, i+1)
			copy(task, e.log[:i+1])
			for j := range task {
				task[j].pending = false
				task[j].alts = nil
			}
			task[i].dir = !task[i].dir
			en.pending = false
			sh.tasks = append(sh.tasks, task)
			sh.cond.Signal()
			return
		}
		if en.kind == lkChoice && len(en.alts) > 0 {
			task := make([]logEntry, i+1)
			copy(task, e.log[:i+1])
			for j := range task {
				task[j].pending = false
				task[j].alts = nil
			}
			task[i].val = uint64(en.alts[len(en.alts)-1])
			en.alts = append([]uint8{}, en.alts[:len(en.alts)-1]...)
			sh.tasks = append(sh.tasks, task)
			sh.cond.Signal()
			return
		}
	}
}

func (e *Engine) exploreTask(entry *ssa.Function, prefix []logEntry) {
	e.solver.PopTo(0)
	e.log = prefix
	for {
		e.runPath(entry)
		e.shared.mu.Lock()
		e.shared.pathCount++
		pc := e.shared.pathCount
		stop := e.shared.stop
		e.shared.mu.Unlock()
		if e.cfg.MaxPaths > 0 && pc >= e.cfg.MaxPaths {
			e.res.Incomplete = fmt.Sprintf("max paths %d reached", e.cfg.MaxPaths)
			e.shared.mu.Lock()
			e.shared.stop = true
			e.shared.mu.Unlock()
			return
		}
		if !e.cfg.Deadline.IsZero() && time.Now().After(e.cfg.Deadline) {
			e.res.Incomplete = "time budget exhausted"
			e.shared.mu.Lock()
			e.shared.stop = true
			e.shared.mu.Unlock()
			return
		}
		if stop {
			return
		}
		e.donate()
		if !e.backtrack() {
			return
		}
		e.pathsSinceRestart++
		if e.pathsSinceRestart >= e.restartEvery() {
			e.restartSolver()
		}
	}
}

func (e *Engine) workerLoop(entry *ssa.Function) {
	sh := e.shared
	for {
		sh.mu.Lock()
		for len(sh.tasks) == 0 && !sh.done {
			sh.idle++
			if sh.idle == sh.workers {
				sh.done = true
				sh.cond.Broadcast()
				break
			}
			sh.cond.Wait()
			sh.idle--
		}
		if sh.done || sh.stop {
			sh.done = true
			sh.cond.Broadcast()
			sh.mu.Unlock()
			return
		}
		t := sh.tasks[len(sh.tasks)-1]
		sh.tasks = sh.tasks[:len(sh.tasks)-1]
		sh.mu.Unlock()
		e.exploreTask(entry, t)
	}
}

// Explore runs the harness entry function over all paths within bounds.
func Explore(prog *ssa.Program, entry *ssa.Function, cfg Config) (*Result, error) {
	t0 := time.Now()
	if cfg.Workers <= 0 {
		cfg.Workers = 1
	}
	sh := &Shared{Prog: prog, workers: cfg.Workers}
	sh.cond = sync.NewCond(&sh.mu)
	sh.tasks = [][]logEntry{nil}
	total := newResult()
	total.Harness = entry.Name()
	var wg sync.WaitGroup
	var emu sync.Mutex
	var firstErr error
	for w := 0; w < cfg.Workers; w++ {
		wg.Add(1)
		go func(w int) {
			defer wg.Done()
			e, err := NewEngine(sh, cfg)
			if err != nil {
				emu.Lock()
				firstErr = err
				emu.Unlock()
				sh.mu.Lock()
				sh.workers--
				sh.mu.Unlock()
				return
			}
			e.res.Harness = entry.Name()
			defer e.solver.Close()
			defer func() {
				if r := recover(); r != nil {
					emu.Lock()
					firstErr = fmt.Errorf("engine panic: %v", r)
					emu.Unlock()
					sh.mu.Lock()
					sh.stop = true
					sh.done = true
					sh.cond.Broadcast()
					sh.mu.Unlock()
					panic(r)
				}
			}()
			e.workerLoop(entry)
			e.res.Stats = e.solver.Stats
			emu.Lock()
			total.merge(e.res)
			emu.Unlock()
		}(w)
	}
	wg.Wait()
	total.Wall = time.Since(t0).Seconds()
	sort.Slice(total.Violations, func(i, j int) bool { return total.Violations[i].Key() < total.Violations[j].Key() })
	return total, firstErr
}

func (e *Engine) runPath(entry *ssa.Function) {
	e.logPos = 0
	e.modelValid = false
	e.syms = e.syms[:0]
	e.symCount = map[string]int{}
	e.objSeq = 0
	e.p = newPathState()
	end := "ok"
	detail := ""
	func() {
		defer func() {
			if r := recover(); r != nil {
				if pa, ok := r.(pathAbort); ok {
					end = pa.reason
					detail = pa.detail
					return
				}
				fmt.Fprintf(os.Stderr, "engine panic on path: %v\ntrace:\n%s\nstack:\n%s\n", r, strings.Join(e.p.trace, "\n"), e.stackString())
				panic(r)
			}
		}()
		e.execEntry(entry)
	}()
	e.res.Paths++
	e.res.Steps += int64(e.p.steps)
	if e.p.maxDepth > e.res.MaxDepthSeen {
		e.res.MaxDepthSeen = e.p.maxDepth
	}
	for f := range e.p.funcs {
		e.res.Funcs[f.String()] = true
	}
	switch end {
	case "ok":
		e.res.PathsOK++
		for _, l := range e.p.reach {
			e.res.Reach[l]++
		}
		if e.p.symChecks > 0 || len(e.p.reach) > 0 {
			// non-trivial: discharged a symbolic assertion or ran the harness to its end label
			e.res.NontrivPaths++
		}
	case "infeasible":
		e.res.Infeasible++
	case "violation":
		// recorded already
	case "bound":
		e.res.BoundHits[detail]++
	case "unknown":
		e.res.Unsupported["solver:"+detail]++
	default:
		e.res.Unsupported[end+":"+detail]++
	}
	if e.cfg.Verbose {
		fmt.Fprintf(os.Stderr, "path %d end=%s %s steps=%d log=%d\n", e.res.Paths, end, detail, e.p.steps, len(e.log))
	}
	if end == "ok" && len(e.res.Samples) < 6 && (e.res.Paths&(e.res.Paths-1)) == 0 {
		// sample witness for this path
		if r := e.solver.CheckWith(nil); r == smt.Sat {
			if vec, ok := e.currentModel(); ok {
				e.res.Samples = append(e.res.Samples, PathSample{End: end, Reach: e.p.reach, Witness: vec, Checks: e.p.checks})
			}
		}
		e.solver.EndCheck()
	}
}

func (e *Engine) stackString() string {
	var sb strings.Builder
	if e.p == nil || e.p.cur == nil {
		return ""
	}
	n := 0
	for fr := e.p.cur.top; fr != nil && n < 12; fr = fr.caller {
		site := fr.fn.String()
		if fr.block != nil && fr.pc < len(fr.block.Instrs) {
			site += " @ " + posOf(e.prog, fr.block.Instrs[fr.pc]) + " :: " + fr.block.Instrs[fr.pc].String()
		}
		sb.WriteString("  " + site + "\n")
		n++
	}
	return sb.String()
}
