package exec

import (
	"crypto/md5"
	"hash/crc32"
	"go/types"
	"math"

	"golang.org/x/tools/go/ssa"

	"gosym/term"
)

func float32frombits(b uint32) float32 { return math.Float32frombits(b) }
func float64frombits(b uint64) float64 { return math.Float64frombits(b) }

func (e *Engine) mutexAt(p Ptr) *mutexState {
	m := e.p.sched.mutexes[p.Obj]
	if m == nil {
		m = map[int]*mutexState{}
		e.p.sched.mutexes[p.Obj] = m
	}
	st := m[p.Off]
	if st == nil {
		st = &mutexState{}
		m[p.Off] = st
	}
	return st
}

func (e *Engine) blockOn(g *Goroutine, what string, pred func() bool) (Value, bool) {
	g.wait = &waitState{kind: wCond, pred: pred, what: what}
	return nil, false
}

// fieldOffset finds the cell offset of a named field in the struct pointed to by ptrType.
func (e *Engine) fieldOffset(st types.Type, name string) (int, types.Type) {
	s := st.Underlying().(*types.Struct)
	li := e.layout(st)
	for i := 0; i < s.NumFields(); i++ {
		if s.Field(i).Name() == name {
			return li.fields[i], s.Field(i).Type()
		}
	}
	panic("field " + name + " not found in " + st.String())
}

func recvElem(fn *ssa.Function) types.Type {
	return fn.Signature.Recv().Type().(*types.Pointer).Elem()
}

type syncMapState struct {
	m *MapObj
}

type poolKey struct {
	obj *Object
	off int
}

func (e *Engine) syncMapAt(p Ptr) *MapObj {
	if e.p.syncMaps == nil {
		e.p.syncMaps = map[*Object]map[int]*MapObj{}
	}
	mm := e.p.syncMaps[p.Obj]
	if mm == nil {
		mm = map[int]*MapObj{}
		e.p.syncMaps[p.Obj] = mm
	}
	m := mm[p.Off]
	if m == nil {
		anyT := types.NewInterfaceType(nil, nil)
		m = &MapObj{KeyT: anyT, ValT: anyT}
		mm[p.Off] = m
	}
	return m
}

func registerSyncIntrinsics() {
	I := intrinsics
	I["(*sync.Mutex).Lock"] = func(e *Engine, g *Goroutine, a []Value, fn *ssa.Function, c *ssa.Call) (Value, bool) {
		p := a[0].(Ptr)
		if p.Obj == nil {
			e.goPanic(g, "nil pointer dereference (Mutex.Lock)")
			return nil, true
		}
		st := e.mutexAt(p)
		if st.locked || st.readers > 0 {
			return e.blockOn(g, "Mutex.Lock", func() bool { return !st.locked && st.readers == 0 })
		}
		st.locked = true
		st.owner = g.id
		e.p.sched.yield = true
		return nil, true
	}
	I["(*sync.Mutex).TryLock"] = func(e *Engine, g *Goroutine, a []Value, fn *ssa.Function, c *ssa.Call) (Value, bool) {
		st := e.mutexAt(a[0].(Ptr))
		e.p.sched.yield = true
		if st.locked || st.readers > 0 {
			return e.tb.False, true
		}
		st.locked = true
		return e.tb.True, true
	}
	I["(*sync.Mutex).Unlock"] = func(e *Engine, g *Goroutine, a []Value, fn *ssa.Function, c *ssa.Call) (Value, bool) {
		st := e.mutexAt(a[0].(Ptr))
		if !st.locked {
			e.recordViolation("panic", "unlock-of-unlocked-mutex", e.siteOf(g.top), "sync: unlock of unlocked mutex", nil)
			e.abort("violation", "unlock")
		}
		st.locked = false
		e.p.sched.yield = true
		return nil, true
	}
	I["(*sync.RWMutex).Lock"] = I["(*sync.Mutex).Lock"]
	I["(*sync.RWMutex).Unlock"] = I["(*sync.Mutex).Unlock"]
	I["(*sync.RWMutex).TryLock"] = I["(*sync.Mutex).TryLock"]
	I["(*sync.RWMutex).RLock"] = func(e *Engine, g *Goroutine, a []Value, fn *ssa.Function, c *ssa.Call) (Value, bool) {
		st := e.mutexAt(a[0].(Ptr))
		if st.locked {
			return e.blockOn(g, "RWMutex.RLock", func() bool { return !st.locked })
		}
		st.readers++
		e.p.sched.yield = true
		return nil, true
	}
	I["(*sync.RWMutex).RUnlock"] = func(e *Engine, g *Goroutine, a []Value, fn *ssa.Function, c *ssa.Call) (Value, bool) {
		st := e.mutexAt(a[0].(Ptr))
		if st.readers <= 0 {
			e.recordViolation("panic", "runlock-of-unlocked-rwmutex", e.siteOf(g.top), "sync: RUnlock of unlocked RWMutex", nil)
			e.abort("violation", "runlock")
		}
		st.readers--
		e.p.sched.yield = true
		return nil, true
	}
	// WaitGroup: counter kept in mutexState.readers
	I["(*sync.WaitGroup).Add"] = func(e *Engine, g *Goroutine, a []Value, fn *ssa.Function, c *ssa.Call) (Value, bool) {
		st := e.mutexAt(a[0].(Ptr))
		st.readers += int(e.constInt(a[1], "WaitGroup delta"))
		if st.readers < 0 {
			e.goPanic(g, "sync: negative WaitGroup counter")
			return nil, true
		}
		e.p.sched.yield = true
		return nil, true
	}
	I["(*sync.WaitGroup).Done"] = func(e *Engine, g *Goroutine, a []Value, fn *ssa.Function, c *ssa.Call) (Value, bool) {
		st := e.mutexAt(a[0].(Ptr))
		st.readers--
		if st.readers < 0 {
			e.goPanic(g, "sync: negative WaitGroup counter")
			return nil, true
		}
		e.p.sched.yield = true
		return nil, true
	}
	I["(*sync.WaitGroup).Wait"] = func(e *Engine, g *Goroutine, a []Value, fn *ssa.Function, c *ssa.Call) (Value, bool) {
		st := e.mutexAt(a[0].(Ptr))
		if st.readers > 0 {
			return e.blockOn(g, "WaitGroup.Wait", func() bool { return st.readers == 0 })
		}
		e.p.sched.yield = true
		return nil, true
	}
	I["(*sync.Pool).Get"] = func(e *Engine, g *Goroutine, a []Value, fn *ssa.Function, c *ssa.Call) (Value, bool) {
		p := a[0].(Ptr)
		off, _ := e.fieldOffset(recvElem(fn), "New")
		nf, _ := p.Obj.Cells[p.Off+off].(*Closure)
		// sync.Pool's contract: Get may hand back ANY item put earlier and not yet taken, or a
		// fresh one: every possibility is explored (free choice), so reuse bugs are visible
		key := poolKey{p.Obj, p.Off}
		if items := e.p.pools[key]; len(items) > 0 {
			e.p.sched.yield = true
			if k := e.FreeChoice("pool", len(items)+1); k > 0 {
				it := items[k-1]
				rest := append([]Value{}, items[:k-1]...)
				e.p.pools[key] = append(rest, items[k:]...)
				return it, true
			}
		}
		if nf == nil {
			return Iface{}, true
		}
		return e.callNested(g, nf, nil), true
	}
	I["(*sync.Pool).Put"] = func(e *Engine, g *Goroutine, a []Value, fn *ssa.Function, c *ssa.Call) (Value, bool) {
		p := a[0].(Ptr)
		if e.p.pools == nil {
			e.p.pools = map[poolKey][]Value{}
		}
		key := poolKey{p.Obj, p.Off}
		if len(e.p.pools[key]) < 4 { // a pool may drop items at any time: keeping at most 4 is within its contract
			e.p.pools[key] = append(e.p.pools[key], a[1])
		}
		return nil, true
	}
	// sync.Map
	I["(*sync.Map).Load"] = func(e *Engine, g *Goroutine, a []Value, fn *ssa.Function, c *ssa.Call) (Value, bool) {
		m := e.syncMapAt(a[0].(Ptr))
		e.p.sched.yield = true
		i := e.mapFind(m, a[1])
		if i < 0 {
			return Tuple{Iface{}, e.tb.False}, true
		}
		return Tuple{m.Vals[i], e.tb.True}, true
	}
	I["(*sync.Map).Store"] = func(e *Engine, g *Goroutine, a []Value, fn *ssa.Function, c *ssa.Call) (Value, bool) {
		m := e.syncMapAt(a[0].(Ptr))
		e.p.sched.yield = true
		e.mapUpdate(m, a[1], a[2])
		return nil, true
	}
	I["(*sync.Map).LoadOrStore"] = func(e *Engine, g *Goroutine, a []Value, fn *ssa.Function, c *ssa.Call) (Value, bool) {
		m := e.syncMapAt(a[0].(Ptr))
		e.p.sched.yield = true
		i := e.mapFind(m, a[1])
		if i >= 0 {
			return Tuple{m.Vals[i], e.tb.True}, true
		}
		e.mapUpdate(m, a[1], a[2])
		return Tuple{a[2], e.tb.False}, true
	}
	I["(*sync.Map).LoadAndDelete"] = func(e *Engine, g *Goroutine, a []Value, fn *ssa.Function, c *ssa.Call) (Value, bool) {
		m := e.syncMapAt(a[0].(Ptr))
		e.p.sched.yield = true
		i := e.mapFind(m, a[1])
		if i < 0 {
			return Tuple{Iface{}, e.tb.False}, true
		}
		v := m.Vals[i]
		m.Dead[i] = true
		m.NLive--
		return Tuple{v, e.tb.True}, true
	}
	I["(*sync.Map).Delete"] = func(e *Engine, g *Goroutine, a []Value, fn *ssa.Function, c *ssa.Call) (Value, bool) {
		m := e.syncMapAt(a[0].(Ptr))
		e.p.sched.yield = true
		e.mapDelete(m, a[1])
		return nil, true
	}
	I["(*sync.Map).Range"] = func(e *Engine, g *Goroutine, a []Value, fn *ssa.Function, c *ssa.Call) (Value, bool) {
		m := e.syncMapAt(a[0].(Ptr))
		f := a[1].(*Closure)
		n := len(m.Keys)
		for i := 0; i < n; i++ {
			if m.Dead[i] {
				continue
			}
			r := e.callNested(g, f, []Value{m.Keys[i], m.Vals[i]})
			if !e.Branch(r.(*term.T)) {
				break
			}
		}
		e.p.sched.yield = true
		return nil, true
	}

	// ---- sync/atomic ----
	for _, ty := range []string{"Int32", "Int64", "Uint32", "Uint64", "Uintptr", "Pointer"} {
		ty := ty
		I["sync/atomic.Load"+ty] = func(e *Engine, g *Goroutine, a []Value, fn *ssa.Function, c *ssa.Call) (Value, bool) {
			p := a[0].(Ptr)
			if p.Obj == nil {
				e.goPanic(g, "nil pointer dereference (atomic load)")
				return nil, true
			}
			e.p.sched.yield = true
			return p.Obj.Cells[p.Off], true
		}
		I["sync/atomic.Store"+ty] = func(e *Engine, g *Goroutine, a []Value, fn *ssa.Function, c *ssa.Call) (Value, bool) {
			p := a[0].(Ptr)
			if p.Obj == nil {
				e.goPanic(g, "nil pointer dereference (atomic store)")
				return nil, true
			}
			e.p.sched.yield = true
			p.Obj.Cells[p.Off] = a[1]
			return nil, true
		}
		I["sync/atomic.Swap"+ty] = func(e *Engine, g *Goroutine, a []Value, fn *ssa.Function, c *ssa.Call) (Value, bool) {
			p := a[0].(Ptr)
			e.p.sched.yield = true
			old := p.Obj.Cells[p.Off]
			p.Obj.Cells[p.Off] = a[1]
			return old, true
		}
		I["sync/atomic.CompareAndSwap"+ty] = func(e *Engine, g *Goroutine, a []Value, fn *ssa.Function, c *ssa.Call) (Value, bool) {
			p := a[0].(Ptr)
			e.p.sched.yield = true
			cur := p.Obj.Cells[p.Off]
			var eq *term.T
			if ct, ok := cur.(*term.T); ok {
				eq = e.tb.Eq(ct, a[1].(*term.T))
			} else {
				eq = e.valueEq(cur, a[1], nil)
			}
			if e.Branch(eq) {
				p.Obj.Cells[p.Off] = a[2]
				return e.tb.True, true
			}
			return e.tb.False, true
		}
		if ty != "Pointer" {
			I["sync/atomic.Add"+ty] = func(e *Engine, g *Goroutine, a []Value, fn *ssa.Function, c *ssa.Call) (Value, bool) {
				p := a[0].(Ptr)
				if p.Obj == nil {
					e.goPanic(g, "nil pointer dereference (atomic add)")
					return nil, true
				}
				e.p.sched.yield = true
				nv := e.tb.Bin(term.KAdd, p.Obj.Cells[p.Off].(*term.T), a[1].(*term.T))
				p.Obj.Cells[p.Off] = nv
				return nv, true
			}
			I["sync/atomic.And"+ty] = func(e *Engine, g *Goroutine, a []Value, fn *ssa.Function, c *ssa.Call) (Value, bool) {
				p := a[0].(Ptr)
				e.p.sched.yield = true
				old := p.Obj.Cells[p.Off].(*term.T)
				p.Obj.Cells[p.Off] = e.tb.Bin(term.KBvAnd, old, a[1].(*term.T))
				return old, true
			}
			I["sync/atomic.Or"+ty] = func(e *Engine, g *Goroutine, a []Value, fn *ssa.Function, c *ssa.Call) (Value, bool) {
				p := a[0].(Ptr)
				e.p.sched.yield = true
				old := p.Obj.Cells[p.Off].(*term.T)
				p.Obj.Cells[p.Off] = e.tb.Bin(term.KBvOr, old, a[1].(*term.T))
				return old, true
			}
		}
	}
	// atomic.Value: single cell holding an interface
	I["(*sync/atomic.Value).Load"] = func(e *Engine, g *Goroutine, a []Value, fn *ssa.Function, c *ssa.Call) (Value, bool) {
		p := a[0].(Ptr)
		e.p.sched.yield = true
		return p.Obj.Cells[p.Off], true
	}
	I["(*sync/atomic.Value).Store"] = func(e *Engine, g *Goroutine, a []Value, fn *ssa.Function, c *ssa.Call) (Value, bool) {
		p := a[0].(Ptr)
		e.p.sched.yield = true
		if a[1].(Iface).T == nil {
			e.goPanic(g, "sync/atomic: store of nil value into Value")
			return nil, true
		}
		p.Obj.Cells[p.Off] = a[1]
		return nil, true
	}
	I["(*sync/atomic.Value).Swap"] = func(e *Engine, g *Goroutine, a []Value, fn *ssa.Function, c *ssa.Call) (Value, bool) {
		p := a[0].(Ptr)
		e.p.sched.yield = true
		old := p.Obj.Cells[p.Off]
		p.Obj.Cells[p.Off] = a[1]
		return old, true
	}
	I["(*sync/atomic.Value).CompareAndSwap"] = func(e *Engine, g *Goroutine, a []Value, fn *ssa.Function, c *ssa.Call) (Value, bool) {
		p := a[0].(Ptr)
		e.p.sched.yield = true
		cur := p.Obj.Cells[p.Off].(Iface)
		if e.Branch(e.valueEq(cur, a[1], nil)) {
			p.Obj.Cells[p.Off] = a[2]
			return e.tb.True, true
		}
		return e.tb.False, true
	}
}

func (e *Engine) durationArg(v Value, what string) int64 {
	return e.constInt(v, what)
}

func registerTimeIntrinsics() {
	I := intrinsics
	// context.WithValue: real semantics minus the reflect-based comparability check
	I["context.WithValue"] = func(e *Engine, g *Goroutine, a []Value, fn *ssa.Function, c *ssa.Call) (Value, bool) {
		if a[0].(Iface).T == nil {
			e.goPanic(g, "cannot create context from nil parent")
			return Iface{}, true
		}
		if a[1].(Iface).T == nil {
			e.goPanic(g, "nil key")
			return Iface{}, true
		}
		vt := e.prog.ImportedPackage("context").Type("valueCtx").Type()
		o := e.newObject(0, "valueCtx")
		o.Cells = []Value{a[0], a[1], a[2]}
		return Iface{T: types.NewPointer(vt), V: Ptr{Obj: o}}, true
	}
	I["time.Now"] = func(e *Engine, g *Goroutine, a []Value, fn *ssa.Function, c *ssa.Call) (Value, bool) {
		return e.timeValue(e.p.sched.now), true
	}
	I["time.runtimeNano"] = func(e *Engine, g *Goroutine, a []Value, fn *ssa.Function, c *ssa.Call) (Value, bool) {
		return e.c64(e.p.sched.now), true
	}
	I["time.Sleep"] = func(e *Engine, g *Goroutine, a []Value, fn *ssa.Function, c *ssa.Call) (Value, bool) {
		d := e.durationArg(a[0], "sleep duration")
		s := e.p.sched
		if g.sleepUntil == 0 {
			if d <= 0 {
				s.yield = true
				return nil, true
			}
			g.sleepUntil = s.now + d
			e.addTimer(d, 0, nil, nil, nil, "sleep")
		}
		if s.now >= g.sleepUntil {
			g.sleepUntil = 0
			s.yield = true
			return nil, true
		}
		until := g.sleepUntil
		return e.blockOn(g, "time.Sleep", func() bool { return s.now >= until })
	}
	after := func(e *Engine, g *Goroutine, a []Value, fn *ssa.Function, c *ssa.Call) (Value, bool) {
		d := e.durationArg(a[0], "timer duration")
		ch := e.newChan(1, nil)
		e.addTimer(d, 0, ch, nil, nil, "After")
		return ch, true
	}
	I["time.After"] = after
	I["time.Tick"] = func(e *Engine, g *Goroutine, a []Value, fn *ssa.Function, c *ssa.Call) (Value, bool) {
		d := e.durationArg(a[0], "tick duration")
		ch := e.newChan(1, nil)
		e.addTimer(d, d, ch, nil, nil, "Tick")
		return ch, true
	}
	I["github.com/TarsCloud/TarsGo/tars/util/rtimer.After"] = after
	newTimerObj := func(e *Engine, fn *ssa.Function, ch *ChanObj) (Ptr, *Object) {
		tt := fn.Signature.Results().At(0).Type().(*types.Pointer).Elem()
		o := e.newObject(0, "timer")
		o.Cells = e.zeroCells(nil, tt)
		off, _ := e.fieldOffset(tt, "C")
		if ch != nil {
			o.Cells[off] = ch
		}
		return Ptr{Obj: o}, o
	}
	I["time.NewTimer"] = func(e *Engine, g *Goroutine, a []Value, fn *ssa.Function, c *ssa.Call) (Value, bool) {
		d := e.durationArg(a[0], "timer duration")
		ch := e.newChan(1, nil)
		p, o := newTimerObj(e, fn, ch)
		t := e.addTimer(d, 0, ch, nil, nil, "Timer")
		t.obj = o
		e.timerObjs()[o] = t
		return p, true
	}
	I["time.NewTicker"] = func(e *Engine, g *Goroutine, a []Value, fn *ssa.Function, c *ssa.Call) (Value, bool) {
		d := e.durationArg(a[0], "ticker period")
		if d <= 0 {
			e.goPanic(g, "non-positive interval for NewTicker")
			return Ptr{}, true
		}
		ch := e.newChan(1, nil)
		p, o := newTimerObj(e, fn, ch)
		t := e.addTimer(d, d, ch, nil, nil, "Ticker")
		t.obj = o
		e.timerObjs()[o] = t
		return p, true
	}
	I["time.AfterFunc"] = func(e *Engine, g *Goroutine, a []Value, fn *ssa.Function, c *ssa.Call) (Value, bool) {
		d := e.durationArg(a[0], "timer duration")
		p, o := newTimerObj(e, fn, nil)
		t := e.addTimer(d, 0, nil, a[1].(*Closure), nil, "AfterFunc")
		t.obj = o
		e.timerObjs()[o] = t
		return p, true
	}
	stop := func(e *Engine, g *Goroutine, a []Value, fn *ssa.Function, c *ssa.Call) (Value, bool) {
		p := a[0].(Ptr)
		t := e.timerObjs()[p.Obj]
		e.p.sched.yield = true
		if t == nil || t.stopped {
			return e.tb.False, true
		}
		t.stopped = true
		return e.tb.True, true
	}
	I["(*time.Timer).Stop"] = stop
	I["(*time.Ticker).Stop"] = func(e *Engine, g *Goroutine, a []Value, fn *ssa.Function, c *ssa.Call) (Value, bool) {
		stop(e, g, a, fn, c)
		return nil, true
	}
	reset := func(e *Engine, g *Goroutine, a []Value, fn *ssa.Function, c *ssa.Call) (Value, bool) {
		p := a[0].(Ptr)
		d := e.durationArg(a[1], "timer duration")
		t := e.timerObjs()[p.Obj]
		e.p.sched.yield = true
		if t == nil {
			return e.tb.False, true
		}
		was := !t.stopped
		t.stopped = true
		nt := e.addTimer(d, t.period, t.ch, t.fn, t.args, t.what)
		if t.period > 0 {
			nt.period = d
		}
		nt.obj = p.Obj
		e.timerObjs()[p.Obj] = nt
		return e.tb.Bool(was), true
	}
	I["(*time.Timer).Reset"] = reset
	I["(*time.Ticker).Reset"] = func(e *Engine, g *Goroutine, a []Value, fn *ssa.Function, c *ssa.Call) (Value, bool) {
		reset(e, g, a, fn, c)
		return nil, true
	}
	// math/rand: arbitrary values
	randN := func(w int) intrinsicFn {
		return func(e *Engine, g *Goroutine, a []Value, fn *ssa.Function, c *ssa.Call) (Value, bool) {
			n := a[len(a)-1].(*term.T)
			if !e.Branch(e.tb.Cmp(term.KSlt, e.tb.Const(n.W, 0), n)) {
				e.goPanic(g, "invalid argument to Intn")
				return e.tb.Const(n.W, 0), true
			}
			s := e.NewSym("$rand", n.W)
			e.Assume(e.tb.Cmp(term.KUlt, s, n))
			return s, true
		}
	}
	for _, nm := range []string{"Intn", "Int31n", "Int63n"} {
		I["math/rand."+nm] = randN(0)
		I["(*math/rand.Rand)."+nm] = randN(0)
	}
	randAny := func(w int, nonneg bool) intrinsicFn {
		return func(e *Engine, g *Goroutine, a []Value, fn *ssa.Function, c *ssa.Call) (Value, bool) {
			s := e.NewSym("$rand", w)
			if nonneg {
				e.Assume(e.tb.Not(e.tb.Cmp(term.KSlt, s, e.tb.Const(w, 0))))
			}
			return s, true
		}
	}
	for _, pre := range []string{"math/rand.", "(*math/rand.Rand)."} {
		I[pre+"Int"] = randAny(64, true)
		I[pre+"Int63"] = randAny(64, true)
		I[pre+"Int31"] = randAny(32, true)
		I[pre+"Uint32"] = randAny(32, false)
		I[pre+"Uint64"] = randAny(64, false)
	}
	I["math/rand.Seed"] = func(e *Engine, g *Goroutine, a []Value, fn *ssa.Function, c *ssa.Call) (Value, bool) { return nil, true }
	I["math/rand.NewSource"] = func(e *Engine, g *Goroutine, a []Value, fn *ssa.Function, c *ssa.Call) (Value, bool) {
		return Iface{}, true
	}
	I["math/rand.New"] = func(e *Engine, g *Goroutine, a []Value, fn *ssa.Function, c *ssa.Call) (Value, bool) {
		tt := fn.Signature.Results().At(0).Type().(*types.Pointer).Elem()
		o := e.newObject(0, "rand")
		o.Cells = e.zeroCells(nil, tt)
		return Ptr{Obj: o}, true
	}
}

func (e *Engine) timerObjs() map[*Object]*vtimer {
	if e.p.timerObjs == nil {
		e.p.timerObjs = map[*Object]*vtimer{}
	}
	return e.p.timerObjs
}

func init() {
	// sort.Slice / sort.SliceStable: binary insertion sort calling the real less closure
	sortSlice := func(e *Engine, g *Goroutine, a []Value, fn *ssa.Function, c *ssa.Call) (Value, bool) {
		x := a[0].(Iface)
		less := a[1].(*Closure)
		if x.T == nil {
			return nil, true
		}
		sl := x.V.(Slice)
		st, ok := x.T.Underlying().(*types.Slice)
		if !ok {
			e.abort("unsupported", "sort.Slice on non-slice")
		}
		stride := e.sizeOf(st.Elem())
		start, n := e.sliceWindow(sl, stride)
		cells := func(i int) []Value { return sl.Obj.Cells[start+i*stride : start+(i+1)*stride] }
		callLess := func(i, j int) bool {
			r := e.callNested(g, less, []Value{e.c64(int64(i)), e.c64(int64(j))})
			return e.Branch(r.(*term.T))
		}
		for i := 1; i < n; i++ {
			// find insertion point in [0,i) for element i: first position p with less(i, p)
			lo, hi := 0, i
			for lo < hi {
				mid := (lo + hi) / 2
				if callLess(i, mid) {
					hi = mid
				} else {
					lo = mid + 1
				}
			}
			if lo < i {
				tmp := make([]Value, stride)
				copy(tmp, cells(i))
				copy(sl.Obj.Cells[start+(lo+1)*stride:start+(i+1)*stride], sl.Obj.Cells[start+lo*stride:start+i*stride])
				copy(cells(lo), tmp)
			}
		}
		return nil, true
	}
	intrinsics["sort.Slice"] = sortSlice
	intrinsics["sort.SliceStable"] = sortSlice
	intrinsics["hash/crc32.ChecksumIEEE"] = func(e *Engine, g *Goroutine, a []Value, fn *ssa.Function, c *ssa.Call) (Value, bool) {
		bs := e.sliceTerms(a[0].(Slice), 1)
		in := make([]byte, len(bs))
		for i, b := range bs {
			if !b.IsConst() {
				e.abort("unsupported", "crc32 of symbolic input")
			}
			in[i] = byte(b.Val)
		}
		return e.tb.Const(32, uint64(crc32.ChecksumIEEE(in))), true
	}
	intrinsics["crypto/md5.Sum"] = func(e *Engine, g *Goroutine, a []Value, fn *ssa.Function, c *ssa.Call) (Value, bool) {
		bs := e.sliceTerms(a[0].(Slice), 1)
		in := make([]byte, len(bs))
		for i, b := range bs {
			if !b.IsConst() {
				e.abort("unsupported", "md5.Sum of symbolic input")
			}
			in[i] = byte(b.Val)
		}
		sum := md5.Sum(in)
		out := make(Agg, 16)
		for i := range sum {
			out[i] = e.tb.Const(8, uint64(sum[i]))
		}
		return out, true
	}
}
