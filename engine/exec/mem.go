package exec

import (
	"fmt"
	"go/types"

	"golang.org/x/tools/go/ssa"

	"gosym/smt"
	"gosym/term"
)

// fromCells converts flattened cells of type t to a register value.
func (e *Engine) fromCells(cells []Value, t types.Type) Value {
	if isAggregate(t) {
		a := make(Agg, len(cells))
		copy(a, cells)
		return a
	}
	return cells[0]
}

func (e *Engine) load(p Ptr, t types.Type) Value {
	n := e.sizeOf(t)
	if p.Off+n > len(p.Obj.Cells) {
		panic(fmt.Sprintf("load out of object: %s off %d size %d cells %d type %s", p.Obj.Name, p.Off, n, len(p.Obj.Cells), t))
	}
	if isAggregate(t) {
		a := make(Agg, n)
		copy(a, p.Obj.Cells[p.Off:p.Off+n])
		return a
	}
	v := p.Obj.Cells[p.Off]
	// reinterpretation through unsafe: adjust scalar widths
	if tv, ok := v.(*term.T); ok {
		if w, isB := bitWidth(t); isB && tv.W != w && tv.W != 0 && w != 0 {
			return e.reinterpretLoad(p, w)
		}
	}
	return v
}

// reinterpretLoad handles loads of a wider scalar from byte cells (unsafe casts), little endian.
func (e *Engine) reinterpretLoad(p Ptr, w int) Value {
	first := p.Obj.Cells[p.Off].(*term.T)
	if first.W > w {
		return e.tb.Extract(first, w-1, 0)
	}
	n := w / first.W
	var acc *term.T
	for i := 0; i < n; i++ {
		c, ok := p.Obj.Cells[p.Off+i].(*term.T)
		if !ok || c.W != first.W {
			e.abort("unsupported", "unsafe reinterpretation of mixed cells")
		}
		if acc == nil {
			acc = c
		} else {
			acc = e.tb.Concat(c, acc)
		}
	}
	return acc
}

func (e *Engine) store(p Ptr, v Value, t types.Type) {
	if p.Obj.ReadOnly {
		panic("store to read-only object " + p.Obj.Name)
	}
	if p.Obj.Persistent && !e.inPersistentInit {
		e.res.Warnings["store to persistent stdlib object "+p.Obj.Name]++
	}
	if a, ok := v.(Agg); ok {
		if p.Off+len(a) > len(p.Obj.Cells) {
			panic("store out of object")
		}
		copy(p.Obj.Cells[p.Off:], a)
		return
	}
	if p.Off >= len(p.Obj.Cells) {
		panic(fmt.Sprintf("store out of object %s off %d cells %d", p.Obj.Name, p.Off, len(p.Obj.Cells)))
	}
	if v == nil {
		panic("store of nil value")
	}
	p.Obj.Cells[p.Off] = v
}

// boundsCheck branches on idx <u n; returns false (after raising a panic) when out of range.
func (e *Engine) boundsCheck(g *Goroutine, idx, n *term.T, what string) bool {
	if !e.Branch(e.tb.Cmp(term.KUlt, idx, n)) {
		e.goPanic(g, "index out of range ("+what+")")
		return false
	}
	return true
}

func (e *Engine) idx64(v Value, t types.Type) *term.T {
	i := v.(*term.T)
	return e.tb.Resize(i, 64, isSigned(t))
}

func (e *Engine) indexAddr(g *Goroutine, fr *Frame, x *ssa.IndexAddr) bool {
	idx := e.idx64(e.get(fr, x.Index), x.Index.Type())
	switch xt := x.X.Type().Underlying().(type) {
	case *types.Pointer:
		at := xt.Elem().Underlying().(*types.Array)
		p := e.asPtr(e.get(fr, x.X))
		if p.Obj == nil {
			e.goPanic(g, "nil pointer dereference (array index)")
			return false
		}
		if !e.boundsCheck(g, idx, e.c64(at.Len()), "array") {
			return false
		}
		if !idx.IsConst() && e.sizeOf(at.Elem()) == 1 && at.Len() <= 256 && e.scalarCells(p.Obj, p.Off, int(at.Len())) {
			e.set(fr, x, SymPtr{Obj: p.Obj, Base: p.Off, Idx: idx, N: int(at.Len())})
			return true
		}
		i := int(e.Concretize(idx, "array index"))
		e.set(fr, x, Ptr{Obj: p.Obj, Off: p.Off + i*e.sizeOf(at.Elem())})
		return true
	case *types.Slice:
		sl := e.get(fr, x.X).(Slice)
		if !e.boundsCheck(g, idx, sl.Len, "slice") {
			return false
		}
		pos := e.tb.Bin(term.KAdd, sl.Off, idx)
		if !pos.IsConst() && e.sizeOf(xt.Elem()) == 1 && sl.Off.IsConst() && sl.Len.IsConst() && sl.Len.Val <= 256 &&
			e.scalarCells(sl.Obj, sl.Base+int(sl.Off.Val), int(sl.Len.Val)) {
			e.set(fr, x, SymPtr{Obj: sl.Obj, Base: sl.Base + int(sl.Off.Val), Idx: idx, N: int(sl.Len.Val)})
			return true
		}
		i := int(e.Concretize(pos, "slice index"))
		e.set(fr, x, Ptr{Obj: sl.Obj, Off: sl.Base + i*e.sizeOf(xt.Elem())})
		return true
	}
	e.abort("unsupported", fmt.Sprintf("IndexAddr on %s", x.X.Type()))
	return false
}

func (e *Engine) index(g *Goroutine, fr *Frame, x *ssa.Index) bool {
	idx := e.idx64(e.get(fr, x.Index), x.Index.Type())
	switch v := e.get(fr, x.X).(type) {
	case Agg:
		at := x.X.Type().Underlying().(*types.Array)
		if !e.boundsCheck(g, idx, e.c64(at.Len()), "array") {
			return false
		}
		sz := e.sizeOf(at.Elem())
		if !idx.IsConst() && sz == 1 {
			if r, ok := e.iteRead(v, 0, int(at.Len()), idx); ok {
				e.set(fr, x, r)
				return true
			}
		}
		i := int(e.Concretize(idx, "array index"))
		e.set(fr, x, e.fromCells(v[i*sz:(i+1)*sz], at.Elem()))
		return true
	case String:
		b, ok := e.strIndex(g, v, idx)
		if !ok {
			return false
		}
		e.set(fr, x, b)
		return true
	}
	e.abort("unsupported", fmt.Sprintf("Index on %s", x.X.Type()))
	return false
}

// iteRead builds an ite chain over cells[base:base+n] selected by idx, if all are same-width terms.
func (e *Engine) iteRead(cells []Value, base, n int, idx *term.T) (*term.T, bool) {
	if n == 0 || n > 256 {
		return nil, false
	}
	// constant table: group indices by value, most frequent value is the default
	allConst := true
	for i := 0; i < n; i++ {
		c, ok := cells[base+i].(*term.T)
		if !ok {
			return nil, false
		}
		if !c.IsConst() {
			allConst = false
			break
		}
	}
	if allConst && n > 4 {
		groups := map[uint64][]int{}
		var order []uint64
		w := cells[base].(*term.T).W
		for i := 0; i < n; i++ {
			c := cells[base+i].(*term.T)
			if c.W != w {
				return nil, false
			}
			if _, ok := groups[c.Val]; !ok {
				order = append(order, c.Val)
			}
			groups[c.Val] = append(groups[c.Val], i)
		}
		def := order[0]
		for _, v := range order {
			if len(groups[v]) > len(groups[def]) {
				def = v
			}
		}
		mk := func(v uint64) *term.T {
			if w == 0 {
				return e.tb.Bool(v != 0)
			}
			return e.tb.Const(w, v)
		}
		acc := mk(def)
		for _, v := range order {
			if v == def {
				continue
			}
			cond := e.tb.False
			for _, i := range groups[v] {
				cond = e.tb.Or(cond, e.tb.Eq(idx, e.c64(int64(i))))
			}
			acc = e.tb.Ite(cond, mk(v), acc)
		}
		return acc, true
	}
	var acc *term.T
	for i := n - 1; i >= 0; i-- {
		c, ok := cells[base+i].(*term.T)
		if !ok {
			return nil, false
		}
		if acc == nil {
			acc = c
			continue
		}
		if c.W != acc.W {
			return nil, false
		}
		acc = e.tb.Ite(e.tb.Eq(idx, e.c64(int64(i))), c, acc)
	}
	return acc, true
}

func (e *Engine) strIndex(g *Goroutine, s String, idx *term.T) (*term.T, bool) {
	if !e.boundsCheck(g, idx, s.Len, "string") {
		return nil, false
	}
	pos := e.tb.Bin(term.KAdd, s.Off, idx)
	if !pos.IsConst() && s.Off.IsConst() && s.Len.IsConst() && s.Len.Val <= 256 {
		if r, ok := e.iteRead(s.Obj.Cells, s.Base+int(s.Off.Val), int(s.Len.Val), idx); ok {
			return r, true
		}
	}
	i := int(e.Concretize(pos, "string index"))
	return s.Obj.Cells[s.Base+i].(*term.T), true
}

func (e *Engine) lookup(g *Goroutine, fr *Frame, x *ssa.Lookup) bool {
	switch v := e.get(fr, x.X).(type) {
	case String:
		idx := e.idx64(e.get(fr, x.Index), x.Index.Type())
		b, ok := e.strIndex(g, v, idx)
		if !ok {
			return false
		}
		e.set(fr, x, b)
		return true
	case *MapObj:
		mt := x.X.Type().Underlying().(*types.Map)
		val, found := e.mapLookup(v, e.get(fr, x.Index), mt)
		if x.CommaOk {
			e.set(fr, x, Tuple{val, e.tb.Bool(found)})
		} else {
			e.set(fr, x, val)
		}
		return true
	}
	e.abort("unsupported", fmt.Sprintf("Lookup on %s", x.X.Type()))
	return false
}

func (e *Engine) sliceOp(g *Goroutine, fr *Frame, x *ssa.Slice) bool {
	tb := e.tb
	var lo, hi, max *term.T
	if x.Low != nil {
		lo = e.idx64(e.get(fr, x.Low), x.Low.Type())
	} else {
		lo = e.c64(0)
	}
	if x.High != nil {
		hi = e.idx64(e.get(fr, x.High), x.High.Type())
	}
	if x.Max != nil {
		max = e.idx64(e.get(fr, x.Max), x.Max.Type())
	}
	check := func(c *term.T) bool {
		if !e.Branch(c) {
			e.goPanic(g, "slice bounds out of range")
			return false
		}
		return true
	}
	switch v := e.get(fr, x.X).(type) {
	case String:
		if hi == nil {
			hi = v.Len
		}
		if !check(tb.Cmp(term.KUle, hi, v.Len)) || !check(tb.Cmp(term.KUle, lo, hi)) {
			return false
		}
		e.set(fr, x, String{Obj: v.Obj, Base: v.Base, Off: tb.Bin(term.KAdd, v.Off, lo), Len: tb.Bin(term.KSub, hi, lo)})
		return true
	case Slice:
		if hi == nil {
			hi = v.Len
		}
		if max == nil {
			max = v.Cap
		} else if !check(tb.Cmp(term.KUle, max, v.Cap)) {
			return false
		}
		if !check(tb.Cmp(term.KUle, hi, max)) || !check(tb.Cmp(term.KUle, lo, hi)) {
			return false
		}
		e.set(fr, x, Slice{Obj: v.Obj, Base: v.Base, Off: tb.Bin(term.KAdd, v.Off, lo), Len: tb.Bin(term.KSub, hi, lo), Cap: tb.Bin(term.KSub, max, lo)})
		return true
	case Ptr:
		at := x.X.Type().Underlying().(*types.Pointer).Elem().Underlying().(*types.Array)
		if v.Obj == nil {
			e.goPanic(g, "nil pointer dereference (slice of nil array pointer)")
			return false
		}
		n := e.c64(at.Len())
		if hi == nil {
			hi = n
		}
		if max == nil {
			max = n
		} else if !check(tb.Cmp(term.KUle, max, n)) {
			return false
		}
		if !check(tb.Cmp(term.KUle, hi, max)) || !check(tb.Cmp(term.KUle, lo, hi)) {
			return false
		}
		e.set(fr, x, Slice{Obj: v.Obj, Base: v.Off, Off: lo, Len: tb.Bin(term.KSub, hi, lo), Cap: tb.Bin(term.KSub, max, lo)})
		return true
	}
	e.abort("unsupported", fmt.Sprintf("Slice on %s", x.X.Type()))
	return false
}

// allocSize concretizes an allocation size (in elements) honouring the allocation bound.
// ok=false means a panic was raised.
func (e *Engine) allocSize(g *Goroutine, n *term.T, elemCells int, what string) (int, bool) {
	if !e.Branch(e.tb.Not(e.tb.Cmp(term.KSlt, n, e.c64(0)))) {
		e.goPanic(g, "makeslice: len out of range ("+what+")")
		return 0, false
	}
	if elemCells < 1 {
		elemCells = 1
	}
	limit := e.p.maxAlloc / int64(elemCells)
	if !e.Branch(e.tb.Cmp(term.KUle, n, e.c64(limit))) {
		if e.p.allocViol {
			// prefer a clearly oversized witness so that the native replay can measure it
			big := e.tb.Cmp(term.KUle, e.c64(1<<24), n)
			if e.query(big) == smt.Sat {
				e.solver.Push()
				e.solver.Assert(big)
			}
			e.recordViolation("alloc", "oversized-allocation", e.siteOf(g.top),
				fmt.Sprintf("allocation of more than %d elements (%s) reachable", limit, what), nil)
			e.abort("violation", "alloc")
		}
		e.abort("bound", "alloc:"+what)
	}
	return int(e.Concretize(n, what)), true
}

func (e *Engine) makeSlice(g *Goroutine, t types.Type, ln, cp *term.T) Value {
	et := t.Underlying().(*types.Slice).Elem()
	sz := e.sizeOf(et)
	ln = e.tb.Resize(ln, 64, true)
	cp = e.tb.Resize(cp, 64, true)
	if !cp.IsConst() && ln.IsConst() {
		// symbolic capacity hint: checked for the run-time panics and the allocation budget,
		// then replaced by the length (capacity is not observable by well-behaved code)
		if !e.Branch(e.tb.Not(e.tb.Cmp(term.KSlt, cp, e.c64(0)))) {
			e.goPanic(g, "makeslice: cap out of range")
			return e.zeroValue(t)
		}
		if !e.Branch(e.tb.Cmp(term.KUle, ln, cp)) {
			e.goPanic(g, "makeslice: len out of range")
			return e.zeroValue(t)
		}
		limit := e.p.maxAlloc / int64(sz+0)
		if sz > 0 {
			limit = e.p.maxAlloc / int64(sz)
		}
		if !e.Branch(e.tb.Cmp(term.KUle, cp, e.c64(limit))) {
			if e.p.allocViol {
				e.recordViolation("alloc", "oversized-allocation", e.siteOf(g.top), "allocation capacity above the budget reachable", nil)
				e.abort("violation", "alloc")
			}
			// over the engine's allocation bound: continue with the length as capacity
		}
		cp = ln
	}
	c, ok := e.allocSize(g, cp, sz, "make cap")
	if !ok {
		return e.zeroValue(t)
	}
	if !e.Branch(e.tb.Cmp(term.KUle, ln, e.c64(int64(c)))) {
		e.goPanic(g, "makeslice: len out of range")
		return e.zeroValue(t)
	}
	o := e.newObject(0, "make")
	o.Cells = e.zeroArray(et, c)
	return Slice{Obj: o, Off: e.c64(0), Len: ln, Cap: e.c64(int64(c))}
}

func (e *Engine) zeroArray(et types.Type, n int) []Value {
	sz := e.sizeOf(et)
	cells := make([]Value, 0, n*sz)
	if sz == 1 && n > 0 {
		z := e.zeroCell(et)
		for i := 0; i < n; i++ {
			cells = append(cells, z)
		}
		return cells
	}
	for i := 0; i < n; i++ {
		cells = e.zeroCells(cells, et)
	}
	return cells
}

// sliceRange concretizes a slice's offset and length and returns the cell window.
func (e *Engine) sliceWindow(s Slice, stride int) (start, n int) {
	n = int(e.Concretize(s.Len, "slice length"))
	if n == 0 || s.Obj == nil {
		return 0, 0
	}
	off := int(e.Concretize(s.Off, "slice offset"))
	return s.Base + off*stride, n
}

// sliceTerms returns the scalar terms of a slice whose elements are single cells.
func (e *Engine) sliceTerms(s Slice, stride int) []*term.T {
	start, n := e.sliceWindow(s, stride)
	out := make([]*term.T, n)
	for i := 0; i < n; i++ {
		out[i] = s.Obj.Cells[start+i*stride].(*term.T)
	}
	return out
}

func (e *Engine) strBytes(s String) []*term.T {
	n := int(e.Concretize(s.Len, "string length"))
	if n == 0 {
		return nil
	}
	off := int(e.Concretize(s.Off, "string offset"))
	out := make([]*term.T, n)
	for i := 0; i < n; i++ {
		out[i] = s.Obj.Cells[s.Base+off+i].(*term.T)
	}
	return out
}

func (e *Engine) strEq(a, b String) *term.T {
	if a.Len.IsConst() && b.Len.IsConst() && a.Len.Val != b.Len.Val {
		return e.tb.False
	}
	if !e.Branch(e.tb.Eq(a.Len, b.Len)) {
		return e.tb.False
	}
	if a.Obj == b.Obj && a.Base == b.Base && a.Off == b.Off {
		return e.tb.True
	}
	x := e.strBytes(a)
	y := e.strBytes(b)
	res := e.tb.True
	for i := range x {
		res = e.tb.And(res, e.tb.Eq(x[i], y[i]))
	}
	return res
}

func (e *Engine) strLess(a, b String) *term.T {
	x := e.strBytes(a)
	y := e.strBytes(b)
	n := len(x)
	if len(y) < n {
		n = len(y)
	}
	res := e.tb.Bool(len(x) < len(y))
	for i := n - 1; i >= 0; i-- {
		res = e.tb.Ite(e.tb.Cmp(term.KUlt, x[i], y[i]), e.tb.True,
			e.tb.Ite(e.tb.Eq(x[i], y[i]), res, e.tb.False))
	}
	return res
}

func (e *Engine) strConcat(a, b String) String {
	if a.Len.IsConst() && a.Len.Val == 0 {
		return b
	}
	if b.Len.IsConst() && b.Len.Val == 0 {
		return a
	}
	x := e.strBytes(a)
	y := e.strBytes(b)
	return e.newString(append(append([]*term.T{}, x...), y...))
}

// goString extracts a concrete Go string; ok=false if any byte is symbolic.
func (e *Engine) goString(s String) (string, bool) {
	bs := e.strBytes(s)
	out := make([]byte, len(bs))
	for i, b := range bs {
		if !b.IsConst() {
			return "", false
		}
		out[i] = byte(b.Val)
	}
	return string(out), true
}

func (e *Engine) appendOp(g *Goroutine, dst Slice, src Value, call *ssa.Call) Value {
	var et types.Type
	if call != nil {
		et = call.Call.Args[0].Type().Underlying().(*types.Slice).Elem()
	}
	stride := 1
	if et != nil {
		stride = e.sizeOf(et)
	}
	var srcCells []Value
	var n int
	switch s := src.(type) {
	case Slice:
		start, cnt := e.sliceWindow(s, stride)
		n = cnt
		if cnt > 0 {
			srcCells = s.Obj.Cells[start : start+cnt*stride]
		}
	case String:
		bs := e.strBytes(s)
		n = len(bs)
		for _, b := range bs {
			srcCells = append(srcCells, b)
		}
	default:
		e.abort("unsupported", fmt.Sprintf("append of %T", src))
	}
	if n == 0 {
		return dst
	}
	tb := e.tb
	newLen := tb.Bin(term.KAdd, dst.Len, e.c64(int64(n)))
	if e.Branch(tb.Cmp(term.KUle, newLen, dst.Cap)) && dst.Obj != nil {
		// in place
		pos := int(e.Concretize(tb.Bin(term.KAdd, dst.Off, dst.Len), "append position"))
		tmp := make([]Value, len(srcCells))
		copy(tmp, srcCells)
		copy(dst.Obj.Cells[dst.Base+pos*stride:], tmp)
		return Slice{Obj: dst.Obj, Base: dst.Base, Off: dst.Off, Len: newLen, Cap: dst.Cap}
	}
	// grow
	oldStart, oldN := e.sliceWindow(dst, stride)
	total := oldN + n
	if int64(total)*int64(stride) > e.p.maxAlloc {
		e.abort("bound", "alloc:append")
	}
	newCap := oldN * 2
	if newCap < total {
		newCap = total
	}
	if newCap < 4 {
		newCap = 4 // deterministic, Go leaves growth unspecified
	}
	o := e.newObject(0, "append")
	if et != nil {
		o.Cells = e.zeroArray(et, newCap)
	} else {
		o.Cells = make([]Value, newCap*stride)
	}
	if oldN > 0 {
		copy(o.Cells, dst.Obj.Cells[oldStart:oldStart+oldN*stride])
	}
	copy(o.Cells[oldN*stride:], srcCells)
	return Slice{Obj: o, Off: e.c64(0), Len: e.c64(int64(total)), Cap: e.c64(int64(newCap))}
}

func (e *Engine) copyOp(g *Goroutine, dst Slice, src Value, call *ssa.Call) Value {
	stride := 1
	if call != nil {
		stride = e.sizeOf(call.Call.Args[0].Type().Underlying().(*types.Slice).Elem())
	}
	var srcCells []Value
	var sn int
	switch s := src.(type) {
	case Slice:
		start, cnt := e.sliceWindow(s, stride)
		sn = cnt
		if cnt > 0 {
			srcCells = s.Obj.Cells[start : start+cnt*stride]
		}
	case String:
		bs := e.strBytes(s)
		sn = len(bs)
		for _, b := range bs {
			srcCells = append(srcCells, b)
		}
	}
	dstart, dn := e.sliceWindow(dst, stride)
	n := sn
	if dn < n {
		n = dn
	}
	if n > 0 {
		tmp := make([]Value, n*stride)
		copy(tmp, srcCells[:n*stride])
		if dst.Obj.ReadOnly {
			panic("copy into read-only object")
		}
		copy(dst.Obj.Cells[dstart:], tmp)
	}
	return e.c64(int64(n))
}

// ---------- maps ----------

func (e *Engine) keyEq(a, b Value, t types.Type) *term.T {
	if isAggregate(t) {
		return e.valueEq(a, b, t)
	}
	return e.valueEq(a, b, t)
}

// mapFind returns the index of key in m, forking on undetermined equalities; -1 if absent.
func (e *Engine) mapFind(m *MapObj, key Value) int {
	if m == nil {
		return -1
	}
	for i := range m.Keys {
		if m.Dead[i] {
			continue
		}
		if e.Branch(e.keyEq(m.Keys[i], key, m.KeyT)) {
			return i
		}
	}
	return -1
}

func (e *Engine) mapLookup(m *MapObj, key Value, mt *types.Map) (Value, bool) {
	i := e.mapFind(m, key)
	if i < 0 {
		return e.zeroValue(mt.Elem()), false
	}
	return m.Vals[i], true
}

func (e *Engine) mapUpdate(m *MapObj, key, val Value) {
	i := e.mapFind(m, key)
	if i >= 0 {
		m.Vals[i] = val
		return
	}
	m.Keys = append(m.Keys, key)
	m.Vals = append(m.Vals, val)
	m.Dead = append(m.Dead, false)
	m.NLive++
}

func (e *Engine) mapDelete(m *MapObj, key Value) {
	i := e.mapFind(m, key)
	if i >= 0 {
		m.Dead[i] = true
		m.NLive--
	}
}

// ---------- range ----------

func (e *Engine) rangeStart(g *Goroutine, v Value) Value {
	switch x := v.(type) {
	case *MapObj:
		it := &RangeIter{M: x}
		if x != nil {
			var live []int
			for i := range x.Keys {
				if !x.Dead[i] {
					live = append(live, i)
				}
			}
			// iteration order: solver-independent choice among permutations for small maps
			if len(live) >= 2 && len(live) <= 3 && e.p.sched.mapOrder {
				perm := e.choosePerm(len(live))
				pl := make([]int, len(live))
				for i, p := range perm {
					pl[i] = live[p]
				}
				live = pl
			}
			it.Perm = live
		}
		return it
	case String:
		return &RangeIter{S: x, IsS: true}
	}
	e.abort("unsupported", fmt.Sprintf("range over %T", v))
	return nil
}

// choosePerm picks a permutation of n elements via free choices.
func (e *Engine) choosePerm(n int) []int {
	rest := make([]int, n)
	for i := range rest {
		rest[i] = i
	}
	var out []int
	for len(rest) > 1 {
		k := e.Choose("maporder", len(rest))
		out = append(out, rest[k])
		rest = append(rest[:k], rest[k+1:]...)
	}
	return append(out, rest[0])
}

// Choose returns a free choice in [0,n), explored exhaustively.
func (e *Engine) Choose(name string, n int) int {
	if n <= 1 {
		return 0
	}
	w := 8
	s := e.NewSym(name, w)
	e.Assume(e.tb.Cmp(term.KUlt, s, e.tb.Const(w, uint64(n))))
	return int(e.Concretize(s, name))
}

func (e *Engine) rangeNext(g *Goroutine, x *ssa.Next, it *RangeIter) Value {
	if it.IsS {
		n := int(e.Concretize(it.S.Len, "range string length"))
		if it.Idx >= n {
			return Tuple{e.tb.False, e.c64(0), e.tb.Const(32, 0)}
		}
		b, _ := e.strIndex(g, it.S, e.c64(int64(it.Idx)))
		i := it.Idx
		if !e.Branch(e.tb.Cmp(term.KUlt, b, e.tb.Const(8, 0x80))) {
			// multi-byte sequence: decode with the real unicode/utf8 code
			pkg := e.prog.ImportedPackage("unicode/utf8")
			if pkg == nil {
				e.abort("unsupported", "non-ASCII byte in range over string (unicode/utf8 not loaded)")
			}
			rest := String{Obj: it.S.Obj, Base: it.S.Base, Off: e.tb.Bin(term.KAdd, it.S.Off, e.c64(int64(i))), Len: e.c64(int64(n - i))}
			r := e.callNested(g, &Closure{Fn: pkg.Func("DecodeRuneInString")}, []Value{rest}).(Tuple)
			size := int(e.Concretize(r[1].(*term.T), "rune size"))
			it.Idx += size
			return Tuple{e.tb.True, e.c64(int64(i)), r[0]}
		}
		it.Idx++
		return Tuple{e.tb.True, e.c64(int64(i)), e.tb.ZExt(b, 32)}
	}
	mt := x.Iter.(*ssa.Range).X.Type().Underlying().(*types.Map)
	for it.Idx < len(it.Perm) {
		i := it.Perm[it.Idx]
		it.Idx++
		if it.M.Dead[i] {
			continue
		}
		return Tuple{e.tb.True, it.M.Keys[i], it.M.Vals[i]}
	}
	return Tuple{e.tb.False, e.zeroValue(mt.Key()), e.zeroValue(mt.Elem())}
}

// scalarCells reports whether cells [base, base+n) of o all hold bit-vector terms of one width.
func (e *Engine) scalarCells(o *Object, base, n int) bool {
	if o == nil || n == 0 || base+n > len(o.Cells) {
		return false
	}
	w := -1
	for i := 0; i < n; i++ {
		t, ok := o.Cells[base+i].(*term.T)
		if !ok {
			return false
		}
		if w < 0 {
			w = t.W
		} else if t.W != w {
			return false
		}
	}
	return true
}

// symLoad reads through a symbolic-index pointer.
func (e *Engine) symLoad(p SymPtr) Value {
	r, ok := e.iteRead(p.Obj.Cells, p.Base, p.N, p.Idx)
	if !ok {
		i := int(e.Concretize(p.Idx, "symbolic pointer index"))
		return p.Obj.Cells[p.Base+i]
	}
	return r
}

// symStore writes through a symbolic-index pointer as a guarded update of every candidate cell.
func (e *Engine) symStore(p SymPtr, v Value) {
	nv, ok := v.(*term.T)
	if !ok || !e.scalarCells(p.Obj, p.Base, p.N) || p.Obj.Cells[p.Base].(*term.T).W != nv.W {
		i := int(e.Concretize(p.Idx, "symbolic pointer index"))
		p.Obj.Cells[p.Base+i] = v
		return
	}
	if p.Obj.ReadOnly {
		panic("store to read-only object " + p.Obj.Name)
	}
	for i := 0; i < p.N; i++ {
		old := p.Obj.Cells[p.Base+i].(*term.T)
		p.Obj.Cells[p.Base+i] = e.tb.Ite(e.tb.Eq(p.Idx, e.c64(int64(i))), nv, old)
	}
}

// asPtr converts a pointer-like value to a concrete pointer (forking on a symbolic index).
func (e *Engine) asPtr(v Value) Ptr {
	switch p := v.(type) {
	case Ptr:
		return p
	case SymPtr:
		i := int(e.Concretize(p.Idx, "symbolic pointer index"))
		return Ptr{Obj: p.Obj, Off: p.Base + i}
	}
	panic(fmt.Sprintf("asPtr on %T", v))
}
