package exec

import (
	"fmt"
	"go/types"
	"strconv"
	"strings"

	"golang.org/x/tools/go/ssa"

	"gosym/term"
)

type intrinsicFn func(e *Engine, g *Goroutine, args []Value, fn *ssa.Function, call *ssa.Call) (Value, bool)

var intrinsics map[string]intrinsicFn

// function-name prefixes that are executed as no-ops returning zero values
var noopPrefixes = []string{
	"(*github.com/TarsCloud/TarsGo/tars/util/rogger.Logger).",
	"github.com/TarsCloud/TarsGo/tars/util/debug.",
	"runtime/debug.",
	"runtime.SetFinalizer", "runtime.KeepAlive", "runtime.GC",
	"fmt.Print", "fmt.Fprint",
	"log.",
	"(*log.Logger).",
	"os/signal.",
	"internal/race.",
	"reflect.TypeOf",
	"internal/godebug.",
	"(*internal/godebug.Setting).",
}

func (e *Engine) stub(name string) { e.res.Stubs[name]++ }

func (e *Engine) runIntrinsic(g *Goroutine, name string, fn *ssa.Function, args []Value, call *ssa.Call) (Value, bool) {
	switch {
	case strings.HasPrefix(name, "builtin:"):
		return e.builtin(g, name[8:], args, call)
	case strings.HasPrefix(name, "noop:"):
		e.stub(name)
		if fn != nil {
			return e.zeroResults(fn), true
		}
		return nil, true
	case strings.HasPrefix(name, "symerr:"):
		e.stub(name)
		res := e.zeroResults(fn)
		fail := e.Choose("$err:"+fn.Name(), 2) == 1
		var errv Value = Iface{}
		if fail {
			errv = e.mkError("stubbed failure of " + fn.Name())
		}
		if t, ok := res.(Tuple); ok {
			t[len(t)-1] = errv
			return t, true
		}
		return errv, true
	case strings.HasPrefix(name, "vapi:"):
		return e.vapi(g, name[5:], args, fn)
	}
	f, ok := intrinsics[name]
	if !ok {
		e.abort("unsupported", "intrinsic "+name)
	}
	e.stub(name)
	return f(e, g, args, fn, call)
}

func (e *Engine) constInt(v Value, what string) int64 {
	t := v.(*term.T)
	if !t.IsConst() {
		return int64(e.Concretize(t, what))
	}
	return t.Int()
}

func (e *Engine) mustGoString(v Value, what string) string {
	s, ok := e.goString(v.(String))
	if !ok {
		e.abort("unsupported", "symbolic string where concrete needed: "+what)
	}
	return s
}

// ---------- harness API ----------

func (e *Engine) vapi(g *Goroutine, name string, args []Value, fn *ssa.Function) (Value, bool) {
	switch name {
	case "U64":
		nm := e.mustGoString(args[0], "symbol name")
		bits := int(e.constInt(args[1], "bits"))
		if bits == 1 {
			s := e.NewSym(nm, 1)
			return e.tb.ZExt(s, 64), true
		}
		s := e.NewSym(nm, bits)
		return e.tb.ZExt(s, 64), true
	case "Assume":
		e.Assume(args[0].(*term.T))
		return nil, true
	case "Ite":
		return e.tb.Ite(args[0].(*term.T), args[1].(*term.T), args[2].(*term.T)), true
	case "And":
		return e.tb.And(args[0].(*term.T), args[1].(*term.T)), true
	case "Or":
		return e.tb.Or(args[0].(*term.T), args[1].(*term.T)), true
	case "Check":
		label := e.mustGoString(args[1], "check label")
		site := label
		if g.top != nil {
			site = e.siteOf(g.top)
		}
		e.Check(args[0].(*term.T), label, site)
		return nil, true
	case "Fail":
		label := e.mustGoString(args[0], "fail label")
		e.recordViolation("check", label, e.siteOf(g.top), "reached Fail", nil)
		e.abort("violation", label)
	case "Reach":
		lbl := e.mustGoString(args[0], "reach label")
		e.p.reach = append(e.p.reach, lbl)
		if e.cfg.SelfCheck {
			e.recordViolation("check", "selfcheck:"+lbl, e.siteOf(g.top), "selfcheck twin: reach point is reachable", nil)
		}
		return nil, true
	case "Choice":
		nm := e.mustGoString(args[0], "choice name")
		n := int(e.constInt(args[1], "choice n"))
		if n <= 1 {
			return e.c64(0), true
		}
		s := e.NewSym(nm, 8)
		e.Assume(e.tb.Cmp(term.KUlt, s, e.tb.Const(8, uint64(n))))
		return e.c64(int64(e.Concretize(s, nm))), true
	case "Setting":
		key := e.mustGoString(args[0], "setting key")
		v := e.constInt(args[1], "setting value")
		switch key {
		case "maxalloc":
			e.p.maxAlloc = v
		case "alloc-violation":
			e.p.allocViol = v != 0
		case "tolerate-panic":
			e.p.tolerate["panic"] = v != 0
		case "tolerate-exit":
			e.p.tolerate["exit"] = v != 0
		case "tolerate-deadlock":
			e.p.tolerate["deadlock"] = v != 0
		case "map-order":
			e.p.sched.mapOrder = v != 0
		case "clock-sym-seconds":
			// subsequent time.Now() = virtual now + a fresh symbolic number of seconds in [0, v]
			s := e.NewSym("$clock", 64)
			e.Assume(e.tb.Cmp(term.KUle, s, e.c64(v)))
			e.p.sched.symNow = s
		default:
			e.abort("unsupported", "vapi.Setting "+key)
		}
		return nil, true
	case "Concrete":
		// Concrete(x uint64) uint64: fork over the feasible values of x
		return e.c64(int64(e.Concretize(args[0].(*term.T), "vapi.Concrete"))), true
	case "Engine", "Has":
		return e.tb.True, true
	case "Note":
		e.tracef("note: %s", describe(args[0]))
		return nil, true
	case "Advance":
		// Advance(ns): move the virtual clock forward, firing due timers first
		d := e.constInt(args[0], "advance")
		target := e.p.sched.now + d
		for {
			t := e.earliestTimer()
			if t == nil || t.when > target {
				break
			}
			e.fireTimer(t)
		}
		e.p.sched.now = target
		e.p.sched.yield = true
		return nil, true
	case "Quiesce":
		// block until no other goroutine can run (they finished or are blocked)
		others := func() bool {
			for _, og := range e.p.gs {
				if og != g && og.status != gDone && e.enabled(og) {
					return true
				}
			}
			return false
		}
		if others() {
			g.wait = &waitState{kind: wCond, pred: func() bool { return !others() }, what: "Quiesce"}
			return nil, false
		}
		return nil, true
	case "NowNs":
		return e.c64(e.p.sched.now - clockStart), true
	}
	e.abort("unsupported", "vapi."+name)
	return nil, true
}

// ---------- formatting ----------

func (e *Engine) errorString(g *Goroutine, v Iface) ([]*term.T, bool) {
	if v.T == nil {
		return nil, false
	}
	e.shared.methodMu.Lock()
	ms := e.prog.MethodSets.MethodSet(v.T)
	var sel *types.Selection
	for _, nm := range []string{"Error", "String"} {
		for i := 0; i < ms.Len(); i++ {
			if ms.At(i).Obj().Name() == nm && ms.At(i).Obj().Exported() {
				sig := ms.At(i).Obj().Type().(*types.Signature)
				if sig.Params().Len() == 0 && sig.Results().Len() == 1 && isString(sig.Results().At(0).Type()) {
					sel = ms.At(i)
				}
			}
		}
		if sel != nil {
			break
		}
	}
	var fn *ssa.Function
	if sel != nil {
		fn = e.prog.MethodValue(sel)
	}
	e.shared.methodMu.Unlock()
	if fn == nil {
		return nil, false
	}
	r := e.callNested(g, &Closure{Fn: fn}, []Value{v.V})
	return e.strBytes(r.(String)), true
}

func (e *Engine) constBytes(s string) []*term.T {
	out := make([]*term.T, len(s))
	for i := 0; i < len(s); i++ {
		out[i] = e.tb.Const(8, uint64(s[i]))
	}
	return out
}

func (e *Engine) formatValue(g *Goroutine, v Value, t types.Type, verb byte) []*term.T {
	switch x := v.(type) {
	case *term.T:
		if x.W == 0 {
			if x.IsConst() {
				return e.constBytes(strconv.FormatBool(x.Val == 1))
			}
			return e.constBytes("<bool>")
		}
		if !x.IsConst() && x.W > 0 {
			// a value fully determined by the path condition is rendered as its decimal
			v := e.modelValue(x)
			if e.Implied(e.tb.Eq(x, e.tb.Const(x.W, v))) {
				x = e.tb.Const(x.W, v)
			}
		}
		if !x.IsConst() {
			// injective opaque rendering: equal strings <=> equal values (content is not decimal)
			e.stub("fmt:%d of symbolic integer rendered opaquely (injective)")
			v := e.tb.Resize(x, 64, isSigned(t))
			out := e.constBytes("{")
			for i := 7; i >= 0; i-- {
				out = append(out, e.tb.Extract(v, i*8+7, i*8))
			}
			return append(out, e.constBytes("}")...)
		}
		if isFloat(t) {
			return e.constBytes(strconv.FormatFloat(toFloat(x), 'g', -1, x.W))
		}
		base := 10
		if verb == 'x' {
			base = 16
		}
		if isSigned(t) {
			return e.constBytes(strconv.FormatInt(x.Int(), base))
		}
		return e.constBytes(strconv.FormatUint(x.Val, base))
	case String:
		bs := e.strBytes(x)
		if verb == 'q' {
			return append(append(e.constBytes("\""), bs...), e.constBytes("\"")...)
		}
		return bs
	case Iface:
		if x.T == nil {
			return e.constBytes("<nil>")
		}
		if bs, ok := e.errorString(g, x); ok {
			return bs
		}
		return e.formatValue(g, x.V, x.T, verb)
	case Ptr:
		if x.Obj == nil {
			return e.constBytes("<nil>")
		}
		return e.constBytes("0xc000000000")
	case Slice:
		if et, ok := t.Underlying().(*types.Slice); ok {
			if b, ok := et.Elem().Underlying().(*types.Basic); ok && b.Kind() == types.Uint8 && verb == 's' {
				return e.sliceTerms(x, 1)
			}
		}
		return e.constBytes("[...]")
	}
	return e.constBytes("<value>")
}

func toFloat(x *term.T) float64 {
	if x.W == 32 {
		return float64(float32frombits(uint32(x.Val)))
	}
	return float64frombits(x.Val)
}

func (e *Engine) sprintf(g *Goroutine, format String, args Slice) String {
	f := e.mustGoString(format, "format string")
	var argv []Iface
	if args.Obj != nil {
		start, n := e.sliceWindow(args, 1)
		for i := 0; i < n; i++ {
			argv = append(argv, args.Obj.Cells[start+i].(Iface))
		}
	}
	var out []*term.T
	ai := 0
	for i := 0; i < len(f); i++ {
		c := f[i]
		if c != '%' {
			out = append(out, e.tb.Const(8, uint64(c)))
			continue
		}
		i++
		// skip flags/width
		for i < len(f) && strings.IndexByte("+-# 0123456789.", f[i]) >= 0 {
			i++
		}
		if i >= len(f) {
			break
		}
		verb := f[i]
		if verb == '%' {
			out = append(out, e.tb.Const(8, '%'))
			continue
		}
		if ai >= len(argv) {
			out = append(out, e.constBytes("%!"+string(verb)+"(MISSING)")...)
			continue
		}
		a := argv[ai]
		ai++
		if verb == 'T' {
			if a.T == nil {
				out = append(out, e.constBytes("<nil>")...)
			} else {
				out = append(out, e.constBytes(a.T.String())...)
			}
			continue
		}
		out = append(out, e.formatValue(g, a, nil, verb)...)
	}
	return e.newString(out)
}

func (e *Engine) sprint(g *Goroutine, args Slice, ln bool) String {
	var out []*term.T
	if args.Obj != nil {
		start, n := e.sliceWindow(args, 1)
		for i := 0; i < n; i++ {
			if i > 0 && ln {
				out = append(out, e.tb.Const(8, ' '))
			}
			out = append(out, e.formatValue(g, args.Obj.Cells[start+i].(Iface), nil, 'v')...)
		}
	}
	if ln {
		out = append(out, e.tb.Const(8, '\n'))
	}
	return e.newString(out)
}

// ---------- table ----------

func init() {
	intrinsics = map[string]intrinsicFn{
		"fmt.Errorf": func(e *Engine, g *Goroutine, a []Value, fn *ssa.Function, c *ssa.Call) (Value, bool) {
			s := e.sprintf(g, a[0].(String), a[1].(Slice))
			return e.mkErrorFromString(s), true
		},
		"fmt.Sprintf": func(e *Engine, g *Goroutine, a []Value, fn *ssa.Function, c *ssa.Call) (Value, bool) {
			return e.sprintf(g, a[0].(String), a[1].(Slice)), true
		},
		"fmt.Sprint": func(e *Engine, g *Goroutine, a []Value, fn *ssa.Function, c *ssa.Call) (Value, bool) {
			return e.sprint(g, a[0].(Slice), false), true
		},
		"fmt.Sprintln": func(e *Engine, g *Goroutine, a []Value, fn *ssa.Function, c *ssa.Call) (Value, bool) {
			return e.sprint(g, a[0].(Slice), true), true
		},
		"os.Exit": func(e *Engine, g *Goroutine, a []Value, fn *ssa.Function, c *ssa.Call) (Value, bool) {
			site := e.siteOf(g.top)
			if e.p.tolerate["exit"] {
				e.abort("exit-tolerated", site)
			}
			e.recordViolation("exit", "process-exit", site, "os.Exit called", nil)
			e.abort("violation", "exit")
			return nil, true
		},
		"os.Getenv": func(e *Engine, g *Goroutine, a []Value, fn *ssa.Function, c *ssa.Call) (Value, bool) {
			return e.emptyString(), true
		},
		"runtime.Gosched": func(e *Engine, g *Goroutine, a []Value, fn *ssa.Function, c *ssa.Call) (Value, bool) {
			e.p.sched.yield = true
			return nil, true
		},
		"runtime.NumGoroutine": func(e *Engine, g *Goroutine, a []Value, fn *ssa.Function, c *ssa.Call) (Value, bool) {
			n := 0
			for _, x := range e.p.gs {
				if x.status != gDone {
					n++
				}
			}
			return e.c64(int64(n)), true
		},
		"runtime.GOMAXPROCS": func(e *Engine, g *Goroutine, a []Value, fn *ssa.Function, c *ssa.Call) (Value, bool) {
			return e.c64(16), true
		},
		"runtime.NumCPU": func(e *Engine, g *Goroutine, a []Value, fn *ssa.Function, c *ssa.Call) (Value, bool) {
			return e.c64(16), true
		},
		"runtime.Caller": func(e *Engine, g *Goroutine, a []Value, fn *ssa.Function, c *ssa.Call) (Value, bool) {
			return Tuple{e.c64(0), e.constString("file.go"), e.c64(1), e.tb.True}, true
		},
		"runtime.Stack": func(e *Engine, g *Goroutine, a []Value, fn *ssa.Function, c *ssa.Call) (Value, bool) {
			return e.c64(0), true
		},
		// ---- bytealg ----
		"internal/bytealg.IndexByte": func(e *Engine, g *Goroutine, a []Value, fn *ssa.Function, c *ssa.Call) (Value, bool) {
			return e.indexByte(e.sliceTerms(a[0].(Slice), 1), a[1].(*term.T)), true
		},
		"internal/bytealg.IndexByteString": func(e *Engine, g *Goroutine, a []Value, fn *ssa.Function, c *ssa.Call) (Value, bool) {
			return e.indexByte(e.strBytes(a[0].(String)), a[1].(*term.T)), true
		},
		"internal/bytealg.Equal": func(e *Engine, g *Goroutine, a []Value, fn *ssa.Function, c *ssa.Call) (Value, bool) {
			x, y := e.sliceTerms(a[0].(Slice), 1), e.sliceTerms(a[1].(Slice), 1)
			return e.bytesEq(x, y), true
		},
		"internal/bytealg.Compare": func(e *Engine, g *Goroutine, a []Value, fn *ssa.Function, c *ssa.Call) (Value, bool) {
			x, y := e.sliceTerms(a[0].(Slice), 1), e.sliceTerms(a[1].(Slice), 1)
			return e.bytesCompare(x, y), true
		},
		"internal/bytealg.Count": func(e *Engine, g *Goroutine, a []Value, fn *ssa.Function, c *ssa.Call) (Value, bool) {
			return e.countByte(e.sliceTerms(a[0].(Slice), 1), a[1].(*term.T)), true
		},
		"internal/bytealg.CountString": func(e *Engine, g *Goroutine, a []Value, fn *ssa.Function, c *ssa.Call) (Value, bool) {
			return e.countByte(e.strBytes(a[0].(String)), a[1].(*term.T)), true
		},
		"internal/bytealg.Index": func(e *Engine, g *Goroutine, a []Value, fn *ssa.Function, c *ssa.Call) (Value, bool) {
			return e.indexSub(e.sliceTerms(a[0].(Slice), 1), e.sliceTerms(a[1].(Slice), 1)), true
		},
		"internal/bytealg.IndexString": func(e *Engine, g *Goroutine, a []Value, fn *ssa.Function, c *ssa.Call) (Value, bool) {
			return e.indexSub(e.strBytes(a[0].(String)), e.strBytes(a[1].(String))), true
		},
		"internal/bytealg.MakeNoZero": func(e *Engine, g *Goroutine, a []Value, fn *ssa.Function, c *ssa.Call) (Value, bool) {
			n, ok := e.allocSize(g, a[0].(*term.T), 1, "MakeNoZero")
			if !ok {
				return Slice{Off: e.c64(0), Len: e.c64(0), Cap: e.c64(0)}, true
			}
			o := e.newObject(n, "bytes")
			z := e.tb.Const(8, 0)
			for i := range o.Cells {
				o.Cells[i] = z
			}
			return Slice{Obj: o, Off: e.c64(0), Len: e.c64(int64(n)), Cap: e.c64(int64(n))}, true
		},
		"internal/stringslite.Index": func(e *Engine, g *Goroutine, a []Value, fn *ssa.Function, c *ssa.Call) (Value, bool) {
			return e.indexSub(e.strBytes(a[0].(String)), e.strBytes(a[1].(String))), true
		},
		"strings.Index": func(e *Engine, g *Goroutine, a []Value, fn *ssa.Function, c *ssa.Call) (Value, bool) {
			return e.indexSub(e.strBytes(a[0].(String)), e.strBytes(a[1].(String))), true
		},
		"internal/abi.NoEscape": func(e *Engine, g *Goroutine, a []Value, fn *ssa.Function, c *ssa.Call) (Value, bool) {
			return a[0], true
		},
		"internal/abi.Escape": func(e *Engine, g *Goroutine, a []Value, fn *ssa.Function, c *ssa.Call) (Value, bool) {
			return a[0], true
		},
		"math.Float32bits":     func(e *Engine, g *Goroutine, a []Value, fn *ssa.Function, c *ssa.Call) (Value, bool) { return a[0], true },
		"math.Float32frombits": func(e *Engine, g *Goroutine, a []Value, fn *ssa.Function, c *ssa.Call) (Value, bool) { return a[0], true },
		"math.Float64bits":     func(e *Engine, g *Goroutine, a []Value, fn *ssa.Function, c *ssa.Call) (Value, bool) { return a[0], true },
		"math.Float64frombits": func(e *Engine, g *Goroutine, a []Value, fn *ssa.Function, c *ssa.Call) (Value, bool) { return a[0], true },
	}
	intrinsics["(*flag.FlagSet).failf"] = func(e *Engine, g *Goroutine, a []Value, fn *ssa.Function, c *ssa.Call) (Value, bool) {
		return e.mkError("flag: parse error"), true
	}
	intrinsics["(*flag.FlagSet).usage"] = func(e *Engine, g *Goroutine, a []Value, fn *ssa.Function, c *ssa.Call) (Value, bool) {
		return nil, true
	}
	registerSyncIntrinsics()
	registerTimeIntrinsics()
}

func (e *Engine) indexByte(bs []*term.T, c *term.T) Value {
	// first index i with bs[i]==c, else -1: built as an ite chain from the end
	c8 := e.tb.Resize(c, 8, false)
	res := e.c64(-1)
	for i := len(bs) - 1; i >= 0; i-- {
		res = e.tb.Ite(e.tb.Eq(bs[i], c8), e.c64(int64(i)), res)
	}
	return res
}

func (e *Engine) countByte(bs []*term.T, c *term.T) Value {
	c8 := e.tb.Resize(c, 8, false)
	res := e.c64(0)
	for _, b := range bs {
		res = e.tb.Bin(term.KAdd, res, e.tb.Ite(e.tb.Eq(b, c8), e.c64(1), e.c64(0)))
	}
	return res
}

func (e *Engine) bytesEq(x, y []*term.T) *term.T {
	if len(x) != len(y) {
		return e.tb.False
	}
	res := e.tb.True
	for i := range x {
		res = e.tb.And(res, e.tb.Eq(x[i], y[i]))
	}
	return res
}

func (e *Engine) bytesCompare(x, y []*term.T) *term.T {
	n := len(x)
	if len(y) < n {
		n = len(y)
	}
	var res *term.T
	switch {
	case len(x) < len(y):
		res = e.c64(-1)
	case len(x) > len(y):
		res = e.c64(1)
	default:
		res = e.c64(0)
	}
	for i := n - 1; i >= 0; i-- {
		res = e.tb.Ite(e.tb.Cmp(term.KUlt, x[i], y[i]), e.c64(-1),
			e.tb.Ite(e.tb.Eq(x[i], y[i]), res, e.c64(1)))
	}
	return res
}

func (e *Engine) indexSub(s, sub []*term.T) Value {
	res := e.c64(-1)
	for i := len(s) - len(sub); i >= 0; i-- {
		m := e.bytesEq(s[i:i+len(sub)], sub)
		res = e.tb.Ite(m, e.c64(int64(i)), res)
	}
	return res
}

func (e *Engine) describeArgs(args []Value) string {
	var sb strings.Builder
	for i, a := range args {
		if i > 0 {
			sb.WriteString(", ")
		}
		sb.WriteString(describe(a))
	}
	return sb.String()
}

var _ = fmt.Sprintf
