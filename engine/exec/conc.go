package exec

import (
	"fmt"
	"go/types"
	"sort"
	"strings"

	"golang.org/x/tools/go/ssa"

	"gosym/term"
)

type ChanObj struct {
	id     int
	buf    []Value
	cap    int
	closed bool
	elemT  types.Type
	name   string
}

type waitCase struct {
	ch   *ChanObj
	send bool
	val  Value
}

type waitKind int

const (
	wChan waitKind = iota // send/recv/select on channels
	wCond                 // generic predicate (mutex, waitgroup, sleep): retried when pred() is true
)

type waitState struct {
	kind  waitKind
	cases []waitCase
	pred  func() bool
	what  string
}

type vtimer struct {
	id       int
	when     int64
	period   int64
	ch       *ChanObj
	fn       *Closure
	args     []Value
	stopped  bool
	obj      *Object // the time.Timer / time.Ticker object, if any
	what     string
}

type schedState struct {
	yield     bool
	now       int64
	timers    []*vtimer
	timerSeq  int
	chanSeq   int
	preempts  int
	mapOrder  bool
	choices   []int
	mutexes   map[*Object]map[int]*mutexState
	events    int
	horizon   int64
	multi     bool
	symNow    *term.T // optional symbolic seconds added to the clock
}

type mutexState struct {
	locked  bool
	readers int
	owner   int
}

const clockStart = int64(1_700_000_000) * 1_000_000_000

func newSchedState() *schedState {
	return &schedState{now: clockStart, mutexes: map[*Object]map[int]*mutexState{}, horizon: clockStart + int64(3600)*1_000_000_000}
}

func (e *Engine) newChan(n int, et types.Type) *ChanObj {
	e.p.sched.chanSeq++
	return &ChanObj{id: e.p.sched.chanSeq, cap: n, elemT: et}
}

// FreeChoice is a solver-independent n-way choice explored exhaustively by the DFS.
func (e *Engine) FreeChoice(what string, n int) int {
	if n <= 1 {
		return 0
	}
	if e.logPos < len(e.log) {
		en := &e.log[e.logPos]
		e.logPos++
		if en.kind != lkChoice {
			panic("log desync: expected choice")
		}
		e.p.sched.choices = append(e.p.sched.choices, int(en.val))
		return int(en.val)
	}
	en := logEntry{kind: lkChoice, val: 0, base: e.p.levels}
	for i := 1; i < n; i++ {
		en.alts = append(en.alts, uint8(i))
	}
	e.log = append(e.log, en)
	e.logPos++
	e.p.sched.choices = append(e.p.sched.choices, 0)
	return 0
}

// ---------- scheduler ----------

func (e *Engine) enabled(g *Goroutine) bool {
	switch g.status {
	case gRunnable:
		return true
	case gDone:
		return false
	}
	w := g.wait
	if w == nil {
		return true
	}
	if w.kind == wCond {
		return w.pred()
	}
	for _, c := range w.cases {
		if e.caseReady(g, c) {
			return true
		}
	}
	return false
}

func (e *Engine) blockedPartner(self *Goroutine, ch *ChanObj, wantSend bool) *Goroutine {
	for _, og := range e.p.gs {
		if og == self || og.status != gBlocked || og.wait == nil || og.wait.kind != wChan {
			continue
		}
		for _, c := range og.wait.cases {
			if c.ch == ch && c.send == wantSend {
				return og
			}
		}
	}
	return nil
}

func (e *Engine) caseReady(g *Goroutine, c waitCase) bool {
	if c.ch == nil {
		return false
	}
	if c.send {
		if c.ch.closed || len(c.ch.buf) < c.ch.cap {
			return true
		}
		return e.blockedPartner(g, c.ch, false) != nil
	}
	if len(c.ch.buf) > 0 || c.ch.closed {
		return true
	}
	return e.blockedPartner(g, c.ch, true) != nil
}

func (e *Engine) runScheduler() {
	main := e.p.gs[0]
	for {
		g := e.p.cur
		var res stepResult
		if g.pendingIntrinsic != nil {
			t := g.pendingIntrinsic
			_, done := e.runIntrinsic(g, t.cl.Intrinsic, t.cl.Fn, t.args, nil)
			if done {
				g.pendingIntrinsic = nil
				g.status = gDone
				res = stepDone
			} else {
				res = stepBlocked
			}
		} else {
			res = e.step(g)
		}
		switch res {
		case stepOK:
			continue
		case stepNestedDone:
			panic("nested done at top level")
		case stepDone:
			g.status = gDone
			if g == main {
				return
			}
		case stepBlocked:
			g.status = gBlocked
		case stepYield:
		}
		if len(e.p.gs) == 1 && res == stepYield {
			continue
		}
		e.reschedule(g, res == stepYield)
	}
}

// reschedule picks the next goroutine to run.
func (e *Engine) reschedule(cur *Goroutine, curRunnable bool) {
	s := e.p.sched
	for {
		// delay-bounded scheduling (Emmi/Qadeer/Rakamaric): the default is the deterministic
		// round-robin successor (the current goroutine if it can continue); choosing the k-th
		// candidate instead costs k delays out of the budget cfg.Preempt.
		var opts []*Goroutine
		if curRunnable {
			opts = append(opts, cur)
		}
		ng0 := len(e.p.gs)
		for d := 1; d <= ng0; d++ {
			g := e.p.gs[(cur.id+d)%ng0]
			if g == cur && curRunnable {
				continue
			}
			if g.status != gDone && e.enabled(g) {
				opts = append(opts, g)
			}
		}
		if budget := e.cfg.Preempt - s.preempts; len(opts) > budget+1 {
			if budget < 0 {
				budget = 0
			}
			opts = opts[:budget+1]
		}
		timerOpt := -1
		if e.cfg.TimerAnyTime && len(opts) > 0 {
			if t := e.earliestTimer(); t != nil && t.when <= s.horizon {
				timerOpt = len(opts)
			}
		}
		if len(opts) == 0 {
			// nothing can run: advance virtual time
			t := e.earliestTimer()
			if t == nil || t.when > s.horizon {
				e.deadlock()
			}
			e.fireTimer(t)
			curRunnable = false
			continue
		}
		n := len(opts)
		if timerOpt >= 0 {
			n++
		}
		k := 0
		if n > 1 {
			k = e.FreeChoice("sched", n)
			e.res.Schedules++
		}
		if k == timerOpt {
			e.fireTimer(e.earliestTimer())
			continue
		}
		ng := opts[k]
		if k < len(opts) {
			s.preempts += k
		}
		if ng.status == gBlocked {
			ng.status = gRunnable
			ng.wait = nil
		}
		e.p.cur = ng
		return
	}
}

func (e *Engine) deadlock() {
	main := e.p.gs[0]
	var bl []string
	for _, g := range e.p.gs {
		if g.status == gBlocked {
			w := "?"
			if g.wait != nil {
				w = g.wait.what
			}
			bl = append(bl, fmt.Sprintf("g%d(%s) on %s at %s", g.id, g.name, w, e.siteOf(g.top)))
		}
	}
	msg := "all goroutines blocked: " + strings.Join(bl, "; ")
	if e.p.tolerate["deadlock"] {
		e.abort("deadlock-tolerated", msg)
	}
	site := e.siteOf(main.top)
	e.recordViolation("deadlock", "deadlock", site, msg, nil)
	e.abort("violation", "deadlock")
}

// schedPoint marks a visible operation; returns true if the goroutine should yield BEFORE executing it.
// (Used for plain loads/stores of declared race fields.)
func (e *Engine) schedPoint(g *Goroutine, what string) bool {
	if len(e.p.gs) <= 1 {
		return false
	}
	if g.skipYield {
		g.skipYield = false
		return false
	}
	g.skipYield = true
	return true
}

func (e *Engine) isRaceField(addr ssa.Value) bool {
	if len(e.cfg.RaceFields) == 0 {
		return false
	}
	fa, ok := addr.(*ssa.FieldAddr)
	if !ok {
		return false
	}
	st := fa.X.Type().Underlying().(*types.Pointer).Elem()
	name := types.TypeString(st, func(p *types.Package) string { return p.Name() }) + "." + st.Underlying().(*types.Struct).Field(fa.Field).Name()
	for _, r := range e.cfg.RaceFields {
		if r == name {
			return true
		}
	}
	return false
}

// ---------- channel operations ----------

func (e *Engine) completeWait(pg *Goroutine, ch *ChanObj, wasSend bool, val Value, ok bool) {
	// find which case of pg's wait matched
	idx := -1
	for i, c := range pg.wait.cases {
		if c.ch == ch && c.send == wasSend {
			idx = i
			break
		}
	}
	if idx < 0 {
		panic("completeWait: no matching case")
	}
	fr := pg.top
	in := fr.block.Instrs[fr.pc]
	switch x := in.(type) {
	case *ssa.UnOp:
		if x.CommaOk {
			e.set(fr, x, Tuple{val, e.tb.Bool(ok)})
		} else {
			e.set(fr, x, val)
		}
	case *ssa.Send:
	case *ssa.Select:
		e.set(fr, x, e.selectResult(x, idx, val, ok))
	default:
		panic(fmt.Sprintf("completeWait on %T", in))
	}
	fr.pc++
	pg.status = gRunnable
	pg.wait = nil
}

// doSend performs a ready send. Returns false if a panic was raised.
func (e *Engine) doSend(g *Goroutine, ch *ChanObj, v Value) bool {
	if ch.closed {
		e.goPanic(g, "send on closed channel")
		return false
	}
	if len(ch.buf) == 0 {
		if pg := e.blockedPartner(g, ch, false); pg != nil {
			e.completeWait(pg, ch, false, v, true)
			return true
		}
	}
	if len(ch.buf) >= ch.cap {
		panic("doSend on full channel")
	}
	ch.buf = append(ch.buf, v)
	return true
}

func (e *Engine) doRecv(g *Goroutine, ch *ChanObj) (Value, bool) {
	if len(ch.buf) > 0 {
		v := ch.buf[0]
		ch.buf = append([]Value{}, ch.buf[1:]...)
		if pg := e.blockedPartner(g, ch, true); pg != nil && !ch.closed {
			// a sender was waiting for space
			var sv Value
			for _, c := range pg.wait.cases {
				if c.ch == ch && c.send {
					sv = c.val
					break
				}
			}
			ch.buf = append(ch.buf, sv)
			e.completeWait(pg, ch, true, nil, true)
		}
		return v, true
	}
	if pg := e.blockedPartner(g, ch, true); pg != nil && !ch.closed {
		var sv Value
		for _, c := range pg.wait.cases {
			if c.ch == ch && c.send {
				sv = c.val
				break
			}
		}
		e.completeWait(pg, ch, true, nil, true)
		return sv, true
	}
	if ch.closed {
		return e.zeroValue(ch.elemT), false
	}
	panic("doRecv on non-ready channel")
}

func (e *Engine) chanRecv(g *Goroutine, fr *Frame, x *ssa.UnOp) stepResult {
	ch := e.get(fr, x.X).(*ChanObj)
	c := waitCase{ch: ch}
	if !e.caseReady(g, c) {
		g.wait = &waitState{kind: wChan, cases: []waitCase{c}, what: "chan receive"}
		return stepBlocked
	}
	v, ok := e.doRecv(g, ch)
	if x.CommaOk {
		e.set(fr, x, Tuple{v, e.tb.Bool(ok)})
	} else {
		e.set(fr, x, v)
	}
	fr.pc++
	return stepYield
}

func (e *Engine) chanSend(g *Goroutine, fr *Frame, x *ssa.Send) stepResult {
	ch := e.get(fr, x.Chan).(*ChanObj)
	v := e.get(fr, x.X)
	c := waitCase{ch: ch, send: true, val: v}
	if !e.caseReady(g, c) {
		g.wait = &waitState{kind: wChan, cases: []waitCase{c}, what: "chan send"}
		return stepBlocked
	}
	if !e.doSend(g, ch, v) {
		return stepOK
	}
	fr.pc++
	return stepYield
}

func (e *Engine) chanClose(g *Goroutine, ch *ChanObj) (Value, bool) {
	if ch == nil {
		e.goPanic(g, "close of nil channel")
		return nil, true
	}
	if ch.closed {
		e.goPanic(g, "close of closed channel")
		return nil, true
	}
	ch.closed = true
	e.p.sched.yield = true
	return nil, true
}

func (e *Engine) selectResult(x *ssa.Select, idx int, val Value, ok bool) Value {
	// result tuple: (index int, recvOk bool, r_0 T_0, ... r_n-1 T_n-1) for receive cases
	t := Tuple{e.c64(int64(idx)), e.tb.Bool(ok)}
	for i, st := range x.States {
		if st.Dir == types.RecvOnly {
			if i == idx {
				t = append(t, val)
			} else {
				t = append(t, e.zeroValue(st.Chan.Type().Underlying().(*types.Chan).Elem()))
			}
		}
	}
	return t
}

func (e *Engine) execSelect(g *Goroutine, fr *Frame, x *ssa.Select) stepResult {
	cases := make([]waitCase, len(x.States))
	var ready []int
	for i, st := range x.States {
		ch := e.get(fr, st.Chan).(*ChanObj)
		cases[i] = waitCase{ch: ch, send: st.Dir == types.SendOnly}
		if cases[i].send {
			cases[i].val = e.get(fr, st.Send)
		}
		if e.caseReady(g, cases[i]) {
			ready = append(ready, i)
		}
	}
	if len(ready) == 0 {
		if !x.Blocking {
			e.set(fr, x, e.selectResult(x, -1, nil, false))
			fr.pc++
			return stepYield
		}
		g.wait = &waitState{kind: wChan, cases: cases, what: "select"}
		return stepBlocked
	}
	k := ready[0]
	if len(ready) > 1 {
		k = ready[e.FreeChoice("select", len(ready))]
	}
	c := cases[k]
	if c.send {
		if !e.doSend(g, c.ch, c.val) {
			return stepOK
		}
		e.set(fr, x, e.selectResult(x, k, nil, false))
	} else {
		v, ok := e.doRecv(g, c.ch)
		e.set(fr, x, e.selectResult(x, k, v, ok))
	}
	fr.pc++
	return stepYield
}

// ---------- virtual timers ----------

func (e *Engine) earliestTimer() *vtimer {
	var best *vtimer
	for _, t := range e.p.sched.timers {
		if t.stopped {
			continue
		}
		if best == nil || t.when < best.when || (t.when == best.when && t.id < best.id) {
			best = t
		}
	}
	return best
}

func (e *Engine) addTimer(d int64, period int64, ch *ChanObj, fn *Closure, args []Value, what string) *vtimer {
	s := e.p.sched
	s.timerSeq++
	if d < 0 {
		d = 0
	}
	t := &vtimer{id: s.timerSeq, when: s.now + d, period: period, ch: ch, fn: fn, args: args, what: what}
	s.timers = append(s.timers, t)
	return t
}

func (e *Engine) fireTimer(t *vtimer) {
	s := e.p.sched
	if t.when > s.now {
		s.now = t.when
	}
	s.events++
	e.tracef("timer %s fires at +%dms", t.what, (s.now-clockStart)/1e6)
	if t.ch != nil {
		// non-blocking send of the current time
		if len(t.ch.buf) < t.ch.cap {
			t.ch.buf = append(t.ch.buf, e.timeValue(s.now))
		} else if pg := e.blockedPartner(nil, t.ch, false); pg != nil && len(t.ch.buf) == 0 {
			e.completeWait(pg, t.ch, false, e.timeValue(s.now), true)
		}
	}
	if t.fn != nil {
		ng := e.newGoroutine("timerfunc")
		e.pushFrame(ng, t.fn, t.args, nil)
	}
	if t.period > 0 {
		t.when = s.now + t.period
	} else {
		t.stopped = true
	}
	// drop stopped timers
	live := s.timers[:0]
	for _, x := range s.timers {
		if !x.stopped {
			live = append(live, x)
		}
	}
	s.timers = live
	sort.SliceStable(s.timers, func(i, j int) bool { return s.timers[i].id < s.timers[j].id })
}

const unixToInternal = int64(1969*365+1969/4-1969/100+1969/400) * 86400

// timeValue builds a time.Time (wall, ext, loc) for a virtual instant in ns since the Unix epoch.
func (e *Engine) timeValue(ns int64) Value {
	sec := ns / 1e9
	nsec := ns % 1e9
	ext := e.c64(sec + unixToInternal)
	if e.p.sched.symNow != nil {
		ext = e.tb.Bin(term.KAdd, ext, e.p.sched.symNow)
	}
	return Agg{e.c64(nsec), ext, Ptr{}}
}
