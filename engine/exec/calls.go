package exec

import (
	"fmt"
	"go/types"
	"strings"

	"golang.org/x/tools/go/ssa"

	"gosym/term"
)

func (e *Engine) lookupMethod(t types.Type, m *types.Func) *ssa.Function {
	e.shared.methodMu.Lock()
	defer e.shared.methodMu.Unlock()
	ms := e.prog.MethodSets.MethodSet(t)
	sel := ms.Lookup(m.Pkg(), m.Name())
	if sel == nil {
		return nil
	}
	return e.prog.MethodValue(sel)
}

// resolveCall evaluates callee and arguments. Returns nil closure if a panic was raised.
func (e *Engine) resolveCall(g *Goroutine, fr *Frame, cc *ssa.CallCommon) (*Closure, []Value) {
	var args []Value
	var cl *Closure
	if cc.IsInvoke() {
		recv := e.get(fr, cc.Value).(Iface)
		if recv.T == nil {
			e.goPanic(g, "nil pointer dereference (method call on nil interface "+cc.Method.Name()+")")
			return nil, nil
		}
		fn := e.lookupMethod(recv.T, cc.Method)
		if fn == nil {
			e.abort("unsupported", fmt.Sprintf("method %s not found on %s", cc.Method.Name(), recv.T))
		}
		cl = &Closure{Fn: fn}
		args = append(args, recv.V)
	} else {
		v := e.get(fr, cc.Value)
		c, ok := v.(*Closure)
		if !ok {
			panic(fmt.Sprintf("call of non-closure %T at %s", v, e.siteOf(fr)))
		}
		if c == nil {
			e.goPanic(g, "nil pointer dereference (call of nil func)")
			return nil, nil
		}
		cl = c
	}
	for _, a := range cc.Args {
		v := e.get(fr, a)
		if sp, ok := v.(SymPtr); ok {
			v = e.asPtr(sp)
		}
		args = append(args, v)
	}
	return cl, args
}

func (e *Engine) execCall(g *Goroutine, fr *Frame, x *ssa.Call) stepResult {
	cl, args := e.resolveCall(g, fr, &x.Call)
	if cl == nil {
		return stepOK
	}
	e.p.sched.yield = false
	if !e.invoke(g, cl, args, x, false, false) {
		return stepBlocked
	}
	if e.p.sched.yield {
		e.p.sched.yield = false
		return stepYield
	}
	return stepOK
}

// invoke calls cl. Returns false if the call blocked (nothing changed; retry later).
func (e *Engine) invoke(g *Goroutine, cl *Closure, args []Value, callSite ssa.Value, isDefer, panicDefer bool) bool {
	fr := g.top
	name := cl.Intrinsic
	if name == "" {
		if n, ok := e.intrinsicFor(cl.Fn); ok {
			name = n
		}
	}
	if strings.HasPrefix(name, "redirect:") {
		tgt := name[9:]
		pkg := e.entryPkg
		if i := strings.LastIndex(tgt, ":"); i >= 0 {
			// "import/path:Func": redirect target in another package
			pkg = e.prog.ImportedPackage(tgt[:i])
			tgt = tgt[i+1:]
			if pkg == nil {
				e.abort("unsupported", "redirect target package not loaded: "+name[9:])
			}
		}
		tf := pkg.Func(tgt)
		if tf == nil {
			e.abort("unsupported", "redirect target not found: "+name[9:])
		}
		e.stub(name + " <- " + cl.Fn.String())
		nf := e.pushFrame(g, &Closure{Fn: tf}, args, callSite)
		nf.isDefer = isDefer
		nf.panicDefer = panicDefer
		return true
	}
	if name != "" {
		if cl.BoundRecv != nil {
			args = append([]Value{cl.BoundRecv}, args...)
		}
		e.p.tail = nil
		var cs *ssa.Call
		if c, ok := callSite.(*ssa.Call); ok {
			cs = c
		}
		res, done := e.runIntrinsic(g, name, cl.Fn, args, cs)
		if !done {
			return false
		}
		if g.panic != nil && g.unwinding {
			return true
		}
		if t := e.p.tail; t != nil {
			e.p.tail = nil
			nf := e.pushFrame(g, t.cl, t.args, nil)
			nf.isDefer = isDefer
			nf.panicDefer = panicDefer
			return true
		}
		if fr != nil {
			if callSite != nil {
				e.set(fr, callSite, res)
			}
			if !isDefer {
				fr.pc++
			}
		}
		return true
	}
	e.tracef("g%d call %s", g.id, cl.Fn)
	nf := e.pushFrame(g, cl, args, callSite)
	nf.isDefer = isDefer
	nf.panicDefer = panicDefer
	return true
}

type tailCall struct {
	cl   *Closure
	args []Value
}

func (e *Engine) callIntrinsicValue(g *Goroutine, cl *Closure, args []Value) Value {
	res, done := e.runIntrinsic(g, cl.Intrinsic, nil, args, nil)
	if !done {
		e.abort("unsupported", "blocking intrinsic in nested call: "+cl.Intrinsic)
	}
	return res
}

func (e *Engine) spawn(parent *Goroutine, cl *Closure, args []Value) {
	name := cl.Intrinsic
	if cl.Fn != nil {
		name = cl.Fn.Name()
	}
	ng := e.newGoroutine(name)
	if cl.Fn != nil {
		if _, ok := e.intrinsicFor(cl.Fn); !ok {
			e.pushFrame(ng, cl, args, nil)
			return
		}
	}
	// goroutine running an intrinsic: execute through a tiny trampoline
	ng.pendingIntrinsic = &tailCall{cl: cl, args: args}
}

// ---------- builtins ----------

func (e *Engine) builtin(g *Goroutine, name string, args []Value, call *ssa.Call) (Value, bool) {
	switch name {
	case "len":
		switch x := args[0].(type) {
		case Slice:
			return x.Len, true
		case String:
			return x.Len, true
		case *MapObj:
			if x == nil {
				return e.c64(0), true
			}
			return e.c64(int64(x.NLive)), true
		case *ChanObj:
			if x == nil {
				return e.c64(0), true
			}
			return e.c64(int64(len(x.buf))), true
		case Agg:
			// array: length from type
			at := call.Call.Args[0].Type().Underlying().(*types.Array)
			return e.c64(at.Len()), true
		case Ptr:
			at := call.Call.Args[0].Type().Underlying().(*types.Pointer).Elem().Underlying().(*types.Array)
			return e.c64(at.Len()), true
		}
	case "cap":
		switch x := args[0].(type) {
		case Slice:
			return x.Cap, true
		case *ChanObj:
			if x == nil {
				return e.c64(0), true
			}
			return e.c64(int64(x.cap)), true
		case Agg:
			at := call.Call.Args[0].Type().Underlying().(*types.Array)
			return e.c64(at.Len()), true
		}
	case "append":
		return e.appendOp(g, args[0].(Slice), args[1], call), true
	case "copy":
		return e.copyOp(g, args[0].(Slice), args[1], call), true
	case "delete":
		m := args[0].(*MapObj)
		if m != nil {
			e.mapDelete(m, args[1])
		}
		return nil, true
	case "close":
		return e.chanClose(g, args[0].(*ChanObj))
	case "recover":
		fr := g.top
		if g.panic != nil && !g.unwinding && !g.panic.recovered && fr != nil && fr.isDefer && fr.panicDefer {
			g.panic.recovered = true
			return g.panic.val, true
		}
		return Iface{}, true
	case "print", "println":
		return nil, true
	case "ssa:wrapnilchk":
		p := args[0].(Ptr)
		if p.Obj == nil {
			e.goPanic(g, "value method called using nil pointer")
			return nil, true
		}
		return p, true
	case "min", "max":
		acc := args[0].(*term.T)
		t := call.Call.Args[0].Type()
		for _, a := range args[1:] {
			b := a.(*term.T)
			var lt *term.T
			if isFloat(t) {
				lt = e.tb.Fp("lt", 0, b, acc)
			} else if isSigned(t) {
				lt = e.tb.Cmp(term.KSlt, b, acc)
			} else {
				lt = e.tb.Cmp(term.KUlt, b, acc)
			}
			if name == "max" {
				lt = e.tb.Not(e.tb.Or(lt, e.tb.Eq(b, acc)))
			}
			acc = e.tb.Ite(lt, b, acc)
		}
		return acc, true
	case "String": // unsafe.String(ptr *byte, len)
		p := e.asPtr(args[0])
		n := e.tb.Resize(args[1].(*term.T), 64, true)
		if p.Obj == nil {
			return e.emptyString(), true
		}
		return String{Obj: p.Obj, Base: p.Off, Off: e.c64(0), Len: n}, true
	case "StringData": // unsafe.StringData(s) *byte
		s := args[0].(String)
		if s.Obj == nil {
			return Ptr{}, true
		}
		off := int(e.Concretize(s.Off, "string offset"))
		return Ptr{Obj: s.Obj, Off: s.Base + off}, true
	case "SliceData": // unsafe.SliceData(s) *T
		s := args[0].(Slice)
		if s.Obj == nil {
			return Ptr{}, true
		}
		off := int(e.Concretize(s.Off, "slice offset"))
		stride := e.sizeOf(call.Call.Args[0].Type().Underlying().(*types.Slice).Elem())
		return Ptr{Obj: s.Obj, Off: s.Base + off*stride}, true
	case "Slice": // unsafe.Slice(ptr *T, len) []T
		p := e.asPtr(args[0])
		n := e.tb.Resize(args[1].(*term.T), 64, true)
		if p.Obj == nil {
			return Slice{Off: e.c64(0), Len: e.c64(0), Cap: e.c64(0)}, true
		}
		return Slice{Obj: p.Obj, Base: p.Off, Off: e.c64(0), Len: n, Cap: n}, true
	case "clear":
		switch x := args[0].(type) {
		case *MapObj:
			if x != nil {
				x.Keys, x.Vals, x.Dead, x.NLive = nil, nil, nil, 0
			}
			return nil, true
		}
	}
	e.abort("unsupported", "builtin "+name+fmt.Sprintf(" on %T", args[0]))
	return nil, true
}

// intrinsicFor reports whether fn is replaced by an engine intrinsic.
func (e *Engine) intrinsicFor(fn *ssa.Function) (string, bool) {
	if fn == nil {
		return "", false
	}
	if r, ok := e.intrCache[fn]; ok {
		return r, r != ""
	}
	name := fn.String()
	if o := fn.Origin(); o != nil {
		name = o.String()
	}
	res := ""
	if tgt, ok := e.cfg.Redirect[name]; ok {
		res = "redirect:" + tgt
	} else if fn.Synthetic == "package initializer" {
		res = "noop:pkginit"
	} else if _, ok := intrinsics[name]; ok && !e.cfg.realFunc(name) {
		res = name
	} else {
		for i, p := range noopPrefixes {
			if i == 0 && e.cfg.RealLogger {
				continue
			}
			if strings.HasPrefix(name, p) {
				res = "noop:" + name
				break
			}
		}
		if res == "" {
			for _, p := range e.cfg.NoOps {
				if strings.HasPrefix(name, p) {
					res = "noop:" + name
					break
				}
			}
		}
		if res == "" {
			for _, p := range e.cfg.StubError {
				if strings.HasPrefix(name, p) {
					res = "symerr:" + name
					break
				}
			}
		}
		if res == "" && strings.Contains(name, "/vapi.") && vapiPrims[fn.Name()] {
			res = "vapi:" + fn.Name()
		}
	}
	if e.intrCache == nil {
		e.intrCache = map[*ssa.Function]string{}
	}
	e.intrCache[fn] = res
	return res, res != ""
}

var vapiPrims = map[string]bool{"U64": true, "Assume": true, "Check": true, "Fail": true, "Reach": true, "Choice": true,
	"Setting": true, "Concrete": true, "Engine": true, "Note": true, "Advance": true, "NowNs": true, "And": true, "Or": true, "Quiesce": true, "Has": true, "Ite": true}
