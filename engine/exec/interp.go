package exec

import (
	"fmt"
	"go/constant"
	"go/token"
	"go/types"
	"math"
	"strings"
	"time"

	"golang.org/x/tools/go/ssa"

	"gosym/term"
)

// traceCap bounds the per-path event trace kept for violation reports.
var traceCap = 60

func SetTraceCap(n int) { traceCap = n }

type fnInfo struct {
	index map[ssa.Value]int
	n     int
}

func (e *Engine) info(fn *ssa.Function) *fnInfo {
	if fi, ok := e.fnInfos[fn]; ok {
		return fi
	}
	fi := &fnInfo{index: map[ssa.Value]int{}}
	add := func(v ssa.Value) {
		fi.index[v] = fi.n
		fi.n++
	}
	for _, p := range fn.Params {
		add(p)
	}
	for _, fv := range fn.FreeVars {
		add(fv)
	}
	for _, b := range fn.Blocks {
		for _, in := range b.Instrs {
			if v, ok := in.(ssa.Value); ok {
				add(v)
			}
		}
	}
	e.fnInfos[fn] = fi
	return fi
}

type deferred struct {
	fn   *Closure
	args []Value
	// invoke-mode defers are resolved to fn at defer time
}

type panicState struct {
	val       Iface
	recovered bool
	site      string
	exit      bool // os.Exit: not recoverable
}

type Frame struct {
	fn         *ssa.Function
	info       *fnInfo
	regs       []Value
	block      *ssa.BasicBlock
	prev       *ssa.BasicBlock
	pc         int
	defers     []*deferred
	caller     *Frame
	callSite   ssa.Value
	isDefer    bool
	panicDefer bool
	visits     map[*ssa.BasicBlock]int
	nestedStop bool
	depth      int
	result     Value
	recovering bool // frame is finishing after a recovered panic
}

type gStatus int

const (
	gRunnable gStatus = iota
	gBlocked
	gDone
)

type Goroutine struct {
	id     int
	top    *Frame
	panic  *panicState
	status gStatus
	// blocking
	wait      *waitState
	nestedRes Value
	name      string
	preempted int
	unwinding bool
	skipYield bool
	pendingIntrinsic *tailCall
	sleepUntil int64
}

type pathState struct {
	globals   map[*ssa.Global]*Object
	initDone  map[*ssa.Package]bool
	gs        []*Goroutine
	cur       *Goroutine
	steps     int
	maxDepth  int
	funcs     map[*ssa.Function]bool
	reach     []string
	trace     []string
	checks    int
	symChecks int
	levels    int
	unknown   bool
	maxAlloc  int64
	allocViol bool
	sched     *schedState
	mapSeq    int
	tolerate  map[string]bool
	counters  map[string]int64
	tail      *tailCall
	syncMaps  map[*Object]map[int]*MapObj
	pools     map[poolKey][]Value
	timerObjs map[*Object]*vtimer
}

func newPathState() *pathState {
	return &pathState{globals: map[*ssa.Global]*Object{}, initDone: map[*ssa.Package]bool{}, funcs: map[*ssa.Function]bool{},
		tolerate: map[string]bool{}, counters: map[string]int64{}}
}

func (e *Engine) tracef(format string, a ...interface{}) {
	if len(e.p.trace) > traceCap {
		e.p.trace = e.p.trace[traceCap/3:]
	}
	e.p.trace = append(e.p.trace, fmt.Sprintf(format, a...))
}

// ---------- entry ----------

func (e *Engine) execEntry(entry *ssa.Function) {
	e.p.maxAlloc = e.cfg.MaxAlloc
	e.entryPkg = entry.Pkg
	e.p.allocViol = e.cfg.AllocViolation
	e.p.sched = newSchedState()
	g := e.newGoroutine("main")
	e.p.cur = g
	// initialise the harness package (own initialisers only; imports are lazy)
	if entry.Pkg != nil {
		e.ensureInit(g, entry.Pkg)
	}
	e.pushFrame(g, &Closure{Fn: entry}, nil, nil)
	e.runScheduler()
}

func (e *Engine) newGoroutine(name string) *Goroutine {
	g := &Goroutine{id: len(e.p.gs), name: name}
	e.p.gs = append(e.p.gs, g)
	return g
}

func posOf(prog *ssa.Program, in ssa.Instruction) string {
	p := in.Pos()
	if !p.IsValid() {
		// search neighbours
		return in.Parent().String()
	}
	ps := prog.Fset.Position(p)
	f := ps.Filename
	if i := strings.LastIndex(f, "/"); i >= 0 {
		f = f[i+1:]
	}
	return fmt.Sprintf("%s:%s:%d", in.Parent().Name(), f, ps.Line)
}

// siteOf gives "function:file:line" for the instruction being executed.
func (e *Engine) siteOf(fr *Frame) string {
	if fr == nil || fr.block == nil {
		return "?"
	}
	instrs := fr.block.Instrs
	i := fr.pc
	if i >= len(instrs) {
		i = len(instrs) - 1
	}
	// walk back to find a valid position
	for j := i; j >= 0; j-- {
		if instrs[j].Pos().IsValid() {
			return posOf(e.prog, instrs[j])
		}
	}
	return fr.fn.String()
}

// ---------- frames ----------

func (e *Engine) pushFrame(g *Goroutine, cl *Closure, args []Value, callSite ssa.Value) *Frame {
	fn := cl.Fn
	if len(fn.Blocks) == 0 {
		e.abort("unsupported", "function without body: "+fn.String())
	}
	fi := e.info(fn)
	fr := &Frame{fn: fn, info: fi, regs: make([]Value, fi.n), block: fn.Blocks[0], caller: g.top, callSite: callSite}
	if g.top != nil {
		fr.depth = g.top.depth + 1
	}
	if fr.depth > e.p.maxDepth {
		e.p.maxDepth = fr.depth
	}
	if e.cfg.MaxDepth > 0 && fr.depth > e.cfg.MaxDepth {
		e.boundHit("depth", fn.String())
	}
	if len(args) != len(fn.Params) {
		panic(fmt.Sprintf("arg count mismatch calling %s: %d vs %d", fn, len(args), len(fn.Params)))
	}
	for i := range fn.Params {
		fr.regs[i] = args[i]
	}
	for i := range fn.FreeVars {
		fr.regs[len(fn.Params)+i] = cl.Free[i]
	}
	g.top = fr
	if !e.p.funcs[fn] {
		e.p.funcs[fn] = true
	}
	return fr
}

func (e *Engine) boundHit(kind, detail string) {
	if e.cfg.UnwindViolation && (kind == "unwind" || kind == "steps" || kind == "depth") {
		site := "?"
		if e.p.cur != nil {
			site = e.siteOf(e.p.cur.top)
		}
		e.recordViolation("unwind", kind+"-bound", site, "bound exceeded on a feasible path: "+kind+" "+detail, nil)
		e.abort("violation", kind)
	}
	e.abort("bound", kind+":"+detail)
}

func (e *Engine) get(fr *Frame, v ssa.Value) Value {
	switch x := v.(type) {
	case *ssa.Const:
		return e.constValue(x)
	case *ssa.Function:
		return &Closure{Fn: x}
	case *ssa.Global:
		return Ptr{Obj: e.globalObj(x)}
	case *ssa.Builtin:
		return &Closure{Intrinsic: "builtin:" + x.Name()}
	}
	idx, ok := fr.info.index[v]
	if !ok {
		panic(fmt.Sprintf("no register for %s (%T) in %s", v.Name(), v, fr.fn))
	}
	return fr.regs[idx]
}

func (e *Engine) set(fr *Frame, v ssa.Value, val Value) {
	fr.regs[fr.info.index[v]] = val
}

func (e *Engine) constValue(c *ssa.Const) Value {
	if v, ok := e.constCache[c]; ok {
		return v
	}
	v := e.mkConst(c)
	e.constCache[c] = v
	return v
}

func (e *Engine) mkConst(c *ssa.Const) Value {
	t := c.Type()
	if c.Value == nil {
		return e.zeroValue(t)
	}
	if tp, ok := t.(*types.TypeParam); ok {
		_ = tp
		panic("const of type param")
	}
	b, ok := t.Underlying().(*types.Basic)
	if !ok {
		panic(fmt.Sprintf("const of non-basic type %s", t))
	}
	switch {
	case b.Info()&types.IsBoolean != 0:
		return e.tb.Bool(constant.BoolVal(c.Value))
	case b.Info()&types.IsString != 0:
		return e.constString(constant.StringVal(c.Value))
	case b.Info()&types.IsInteger != 0:
		w, _ := bitWidth(t)
		if i, ok := constant.Int64Val(constant.ToInt(c.Value)); ok {
			return e.tb.Const(w, uint64(i))
		}
		u, _ := constant.Uint64Val(constant.ToInt(c.Value))
		return e.tb.Const(w, u)
	case b.Info()&types.IsFloat != 0:
		f, _ := constant.Float64Val(c.Value)
		if b.Kind() == types.Float32 {
			return e.tb.Const(32, uint64(math.Float32bits(float32(f))))
		}
		return e.tb.Const(64, math.Float64bits(f))
	}
	panic(fmt.Sprintf("unsupported const type %s", t))
}

// ---------- globals and package init ----------

func isRepoPkg(p *ssa.Package) bool {
	return p != nil && strings.HasPrefix(p.Pkg.Path(), "github.com/TarsCloud/TarsGo")
}

func (e *Engine) globalObj(g *ssa.Global) *Object {
	pkg := g.Pkg
	if !isRepoPkg(pkg) {
		if o, ok := e.persistGlobals[g]; ok {
			return o
		}
		// make sure the package is initialised once (persistently)
		e.ensurePersistInit(pkg)
		if o, ok := e.persistGlobals[g]; ok {
			return o
		}
		o := e.allocGlobal(g)
		o.Persistent = true
		e.persistGlobals[g] = o
		if pkg != nil && pkg.Pkg.Path() == "net" && g.Name() == "ErrClosed" {
			// package net's initialiser is not run; give the sentinel error its identity
			saved := e.inPersistentInit
			e.inPersistentInit = true
			o.Cells[0] = e.mkError("use of closed network connection")
			e.inPersistentInit = saved
		}
		if pkg != nil && pkg.Pkg.Path() == "os" && g.Name() == "Args" {
			ao := &Object{ID: -1, Cells: []Value{e.constString("prog")}, Name: "os.Args", Persistent: true}
			o.Cells[0] = Slice{Obj: ao, Off: e.c64(0), Len: e.c64(1), Cap: e.c64(1)}
		}
		return o
	}
	if o, ok := e.p.globals[g]; ok {
		return o
	}
	if !e.p.initDone[pkg] && e.p.cur != nil {
		e.ensureInit(e.p.cur, pkg)
		if o, ok := e.p.globals[g]; ok {
			return o
		}
	}
	o := e.allocGlobal(g)
	e.p.globals[g] = o
	return o
}

func (e *Engine) allocGlobal(g *ssa.Global) *Object {
	et := g.Type().(*types.Pointer).Elem()
	o := e.newObject(0, g.Name())
	o.Cells = e.zeroCells(nil, et)
	return o
}

// ensurePersistInit runs a non-repo package's own initialisers once per engine.
func (e *Engine) ensurePersistInit(pkg *ssa.Package) {
	if pkg == nil || e.persistInitDone[pkg] {
		return
	}
	e.persistInitDone[pkg] = true
	if skipInitPkgs[pkg.Pkg.Path()] {
		return
	}
	initFn := pkg.Func("init")
	if initFn == nil || len(initFn.Blocks) == 0 {
		return
	}
	// pre-create all globals so that stores during init land in persistent objects
	for _, m := range pkg.Members {
		if g, ok := m.(*ssa.Global); ok {
			if _, ok := e.persistGlobals[g]; !ok {
				o := e.allocGlobal(g)
				o.Persistent = true
				e.persistGlobals[g] = o
			}
		}
	}
	saved := e.inPersistentInit
	e.inPersistentInit = true
	// run on a scratch goroutine with a fresh path-independent stack
	savedCur := e.p.cur
	g := &Goroutine{id: -1, name: "init:" + pkg.Pkg.Path()}
	e.p.cur = g
	savedSteps := e.p.steps
	e.callNestedRaw(g, &Closure{Fn: initFn}, nil, true)
	e.p.steps = savedSteps
	e.p.cur = savedCur
	e.inPersistentInit = saved
}

// packages whose initialisers are never run (huge tables or irrelevant state)
var skipInitPkgs = map[string]bool{
	"runtime": true, "os": true, "syscall": true, "internal/poll": true, "net": true,
	"time": true, "reflect": true, "internal/cpu": true, "internal/godebug": true, "crypto/tls": true,
	"net/http": true, "crypto/x509": true, "internal/reflectlite": true, "math/rand": true, "log": true,
	"encoding/json": true, "encoding/xml": true, "html": true, "mime": true, "os/signal": true,
	"internal/bytealg": true, "vendor/golang.org/x/net/http2/hpack": true, "hash/crc32": true,
	"go.uber.org/automaxprocs": true, "go.uber.org/automaxprocs/maxprocs": true,
	"fmt": true, "sync": true, "testing": true, "flag": false,
	"net/netip": true, "unique": true, "net/url": true, "crypto/rand": true, "crypto/internal/boring": true, "internal/abi": true,
	"net/textproto": true, "mime/multipart": true, "compress/flate": true, "compress/gzip": true, "go.opentelemetry.io/otel": true,
}

func (e *Engine) ensureInit(g *Goroutine, pkg *ssa.Package) {
	if pkg == nil {
		return
	}
	if !isRepoPkg(pkg) {
		e.ensurePersistInit(pkg)
		return
	}
	if e.p.initDone[pkg] {
		return
	}
	e.p.initDone[pkg] = true
	skip := false
	for _, sp := range e.cfg.SkipInit {
		if sp == pkg.Pkg.Path() {
			skip = true
		}
	}
	for _, m := range pkg.Members {
		if gl, ok := m.(*ssa.Global); ok {
			if _, ok := e.p.globals[gl]; !ok {
				e.p.globals[gl] = e.allocGlobal(gl)
			}
		}
	}
	initFn := pkg.Func("init")
	if initFn == nil || len(initFn.Blocks) == 0 {
		return
	}
	if skip {
		e.lightInit(initFn)
		return
	}
	e.callNestedRaw(g, &Closure{Fn: initFn}, nil, true)
}

// lightInit applies only the constant / function-valued initialisers of a package whose
// initialiser is otherwise not run (skip_init): `var x int32 = 5`, `var f funcType = someFunc`.
func (e *Engine) lightInit(initFn *ssa.Function) {
	for _, b := range initFn.Blocks {
		for _, in := range b.Instrs {
			st, ok := in.(*ssa.Store)
			if !ok {
				continue
			}
			gl, ok := st.Addr.(*ssa.Global)
			fieldOff := -1
			if !ok {
				// a constant or function stored into a field of a global struct
				// (`var pool = sync.Pool{New: func...}`): follow the FieldAddr chain to the global
				off, cur, good := 0, st.Addr, true
				for good {
					fa, isFA := cur.(*ssa.FieldAddr)
					if !isFA {
						break
					}
					stt, isSt := fa.X.Type().(*types.Pointer).Elem().Underlying().(*types.Struct)
					if !isSt {
						good = false
						break
					}
					_ = stt
					off += e.layout(fa.X.Type().(*types.Pointer).Elem()).fields[fa.Field]
					cur = fa.X
				}
				g2, isGl := cur.(*ssa.Global)
				if !good || !isGl || cur == st.Addr {
					continue
				}
				gl, fieldOff = g2, off
			} else if _, isAgg := gl.Type().(*types.Pointer).Elem().Underlying().(*types.Struct); isAgg {
				continue
			}
			val := st.Val
			if ct, ok := val.(*ssa.ChangeType); ok {
				val = ct.X
			}
			var v Value
			switch x := val.(type) {
			case *ssa.Const:
				if isAggregate(x.Type()) {
					continue
				}
				v = e.constValue(x)
			case *ssa.Function:
				v = &Closure{Fn: x}
			default:
				continue
			}
			o := e.p.globals[gl]
			if o == nil {
				o = e.allocGlobal(gl)
				e.p.globals[gl] = o
			}
			if fieldOff >= 0 {
				if fieldOff < len(o.Cells) {
					o.Cells[fieldOff] = v
				}
			} else if len(o.Cells) == 1 {
				o.Cells[0] = v
			}
		}
	}
}

// ---------- nested synchronous calls (used by intrinsics and init) ----------

// callNested runs cl(args) to completion on g and returns its result.
func (e *Engine) callNested(g *Goroutine, cl *Closure, args []Value) Value {
	return e.callNestedRaw(g, cl, args, false)
}

func (e *Engine) callNestedRaw(g *Goroutine, cl *Closure, args []Value, raw bool) Value {
	if cl.Fn == nil {
		return e.callIntrinsicValue(g, cl, args)
	}
	if name, ok := e.intrinsicFor(cl.Fn); ok && !raw {
		res, done := e.runIntrinsic(g, name, cl.Fn, args, nil)
		if !done {
			e.abort("unsupported", "blocking intrinsic in nested call: "+name)
		}
		return res
	}
	fr := e.pushFrame(g, cl, args, nil)
	fr.nestedStop = true
	saved := e.p.cur
	e.p.cur = g
	for {
		if g.top == nil {
			// goroutine ended by panic
			e.p.cur = saved
			e.uncaughtPanic(g)
		}
		stop := e.step(g)
		if stop == stepNestedDone {
			break
		}
		if stop == stepBlocked {
			e.abort("unsupported", "blocking operation inside nested call")
		}
	}
	e.p.cur = saved
	r := g.nestedRes
	g.nestedRes = nil
	return r
}

type stepResult int

const (
	stepOK stepResult = iota
	stepYield          // scheduling point reached (instruction not yet executed or executed; goroutine still runnable)
	stepBlocked        // goroutine blocked
	stepDone           // goroutine finished
	stepNestedDone     // nested frame returned
)

// ---------- the interpreter loop for one instruction ----------

func (e *Engine) step(g *Goroutine) stepResult {
	fr := g.top
	if fr == nil {
		return stepDone
	}
	e.p.steps++
	if e.cfg.MaxSteps > 0 && e.p.steps > e.cfg.MaxSteps {
		e.boundHit("steps", fr.fn.String())
	}
	if e.p.steps&0x3ff == 0 && !e.cfg.Deadline.IsZero() && time.Now().After(e.cfg.Deadline) {
		e.res.Incomplete = "time budget exhausted"
		e.abort("budget", "deadline")
	}
	if g.panic != nil && g.unwinding {
		return e.unwind(g)
	}
	in := fr.block.Instrs[fr.pc]
	switch x := in.(type) {
	case *ssa.DebugRef:
		fr.pc++
	case *ssa.Alloc:
		et := x.Type().(*types.Pointer).Elem()
		o := e.newObject(0, x.Comment)
		o.Cells = e.zeroCells(nil, et)
		e.set(fr, x, Ptr{Obj: o})
		fr.pc++
	case *ssa.BinOp:
		r := e.binop(g, x.Op, e.get(fr, x.X), e.get(fr, x.Y), x.X.Type(), x.Y.Type())
		if x.Op == token.QUO && len(e.cfg.ConcretizeDiv) > 0 {
			// case split on the value of an integer quotient (every feasible value is explored,
			// feasibility decided by the solver): keeps loops driven by the quotient concrete
			if t, ok := r.(*term.T); ok && !t.IsConst() && t.W > 0 && !isFloat(x.X.Type()) {
				name := fr.fn.String()
				for _, p := range e.cfg.ConcretizeDiv {
					if strings.HasPrefix(name, p) {
						r = e.tb.Const(t.W, e.Concretize(t, "quotient in "+name))
						break
					}
				}
			}
		}
		e.set(fr, x, r)
		fr.pc++
	case *ssa.UnOp:
		if x.Op == token.ARROW {
			return e.chanRecv(g, fr, x)
		}
		e.set(fr, x, e.unop(g, x, e.get(fr, x.X)))
		fr.pc++
	case *ssa.Phi:
		// evaluate all phis of the block simultaneously
		e.execPhis(fr)
	case *ssa.Convert:
		e.set(fr, x, e.convert(g, e.get(fr, x.X), x.X.Type(), x.Type()))
		fr.pc++
	case *ssa.MultiConvert:
		e.set(fr, x, e.convert(g, e.get(fr, x.X), x.X.Type(), x.Type()))
		fr.pc++
	case *ssa.ChangeType:
		e.set(fr, x, e.get(fr, x.X))
		fr.pc++
	case *ssa.ChangeInterface:
		e.set(fr, x, e.get(fr, x.X))
		fr.pc++
	case *ssa.MakeInterface:
		e.set(fr, x, Iface{T: x.X.Type(), V: e.get(fr, x.X)})
		fr.pc++
	case *ssa.MakeClosure:
		cl := &Closure{Fn: x.Fn.(*ssa.Function)}
		for _, b := range x.Bindings {
			cl.Free = append(cl.Free, e.get(fr, b))
		}
		e.set(fr, x, cl)
		fr.pc++
	case *ssa.MakeSlice:
		e.set(fr, x, e.makeSlice(g, x.Type(), e.get(fr, x.Len).(*term.T), e.get(fr, x.Cap).(*term.T)))
		fr.pc++
	case *ssa.MakeMap:
		mt := x.Type().Underlying().(*types.Map)
		e.p.mapSeq++
		e.set(fr, x, &MapObj{ID: e.p.mapSeq, KeyT: mt.Key(), ValT: mt.Elem()})
		fr.pc++
	case *ssa.MakeChan:
		sz := e.get(fr, x.Size).(*term.T)
		n := int(e.Concretize(sz, "chan size"))
		e.set(fr, x, e.newChan(n, x.Type().Underlying().(*types.Chan).Elem()))
		fr.pc++
	case *ssa.FieldAddr:
		p := e.asPtr(e.get(fr, x.X))
		if p.Obj == nil {
			e.goPanic(g, "nil pointer dereference (field address)")
			return stepOK
		}
		st := x.X.Type().Underlying().(*types.Pointer).Elem()
		e.set(fr, x, Ptr{Obj: p.Obj, Off: p.Off + e.layout(st).fields[x.Field]})
		fr.pc++
	case *ssa.Field:
		a := e.get(fr, x.X).(Agg)
		li := e.layout(x.X.Type())
		ft := x.X.Type().Underlying().(*types.Struct).Field(x.Field).Type()
		off := li.fields[x.Field]
		e.set(fr, x, e.fromCells(a[off:off+e.sizeOf(ft)], ft))
		fr.pc++
	case *ssa.IndexAddr:
		if !e.indexAddr(g, fr, x) {
			return stepOK
		}
		fr.pc++
	case *ssa.Index:
		if !e.index(g, fr, x) {
			return stepOK
		}
		fr.pc++
	case *ssa.Lookup:
		if !e.lookup(g, fr, x) {
			return stepOK
		}
		fr.pc++
	case *ssa.Slice:
		if !e.sliceOp(g, fr, x) {
			return stepOK
		}
		fr.pc++
	case *ssa.SliceToArrayPointer:
		sl := e.get(fr, x.X).(Slice)
		at := x.Type().(*types.Pointer).Elem().Underlying().(*types.Array)
		n := at.Len()
		if !e.Branch(e.tb.Cmp(term.KUle, e.c64(n), sl.Len)) {
			e.goPanic(g, "slice to array pointer: length too short")
			return stepOK
		}
		if sl.Obj == nil {
			e.set(fr, x, Ptr{})
		} else {
			off := int(e.Concretize(sl.Off, "slice offset"))
			e.set(fr, x, Ptr{Obj: sl.Obj, Off: sl.Base + off*e.sizeOf(at.Elem())})
		}
		fr.pc++
	case *ssa.Store:
		if sp, ok := e.get(fr, x.Addr).(SymPtr); ok {
			e.symStore(sp, e.get(fr, x.Val))
			fr.pc++
			return stepOK
		}
		p := e.get(fr, x.Addr).(Ptr)
		if p.Obj == nil {
			e.goPanic(g, "nil pointer dereference (store)")
			return stepOK
		}
		if e.isRaceField(x.Addr) && e.schedPoint(g, "store") {
			return stepYield
		}
		e.store(p, e.get(fr, x.Val), x.Val.Type())
		fr.pc++
	case *ssa.MapUpdate:
		m := e.get(fr, x.Map).(*MapObj)
		if m == nil {
			e.goPanic(g, "assignment to entry in nil map")
			return stepOK
		}
		e.mapUpdate(m, e.get(fr, x.Key), e.get(fr, x.Value))
		fr.pc++
	case *ssa.Extract:
		e.set(fr, x, e.get(fr, x.Tuple).(Tuple)[x.Index])
		fr.pc++
	case *ssa.TypeAssert:
		if !e.typeAssert(g, fr, x) {
			return stepOK
		}
		fr.pc++
	case *ssa.Range:
		e.set(fr, x, e.rangeStart(g, e.get(fr, x.X)))
		fr.pc++
	case *ssa.Next:
		e.set(fr, x, e.rangeNext(g, x, e.get(fr, x.Iter).(*RangeIter)))
		fr.pc++
	case *ssa.Jump:
		e.jump(fr, fr.block.Succs[0])
	case *ssa.If:
		c := e.get(fr, x.Cond).(*term.T)
		if e.Branch(c) {
			e.jump(fr, fr.block.Succs[0])
		} else {
			e.jump(fr, fr.block.Succs[1])
		}
	case *ssa.Return:
		var res Value
		switch len(x.Results) {
		case 0:
		case 1:
			res = e.get(fr, x.Results[0])
		default:
			t := make(Tuple, len(x.Results))
			for i, r := range x.Results {
				t[i] = e.get(fr, r)
			}
			res = t
		}
		return e.doReturn(g, fr, res)
	case *ssa.RunDefers:
		if len(fr.defers) > 0 {
			d := fr.defers[len(fr.defers)-1]
			fr.defers = fr.defers[:len(fr.defers)-1]
			if !e.invoke(g, d.fn, d.args, nil, true, false) {
				fr.defers = append(fr.defers, d)
				return stepBlocked
			}
			return stepOK
		}
		fr.pc++
	case *ssa.Panic:
		v := e.get(fr, x.X).(Iface)
		e.startPanic(g, v, e.siteOf(fr))
	case *ssa.Call:
		return e.execCall(g, fr, x)
	case *ssa.Defer:
		cl, args := e.resolveCall(g, fr, &x.Call)
		if cl == nil && g.panic != nil {
			return stepOK
		}
		fr.defers = append(fr.defers, &deferred{fn: cl, args: args})
		fr.pc++
	case *ssa.Go:
		cl, args := e.resolveCall(g, fr, &x.Call)
		if cl == nil && g.panic != nil {
			return stepOK
		}
		if cl.Fn != nil && e.goAsCall(cl.Fn) {
			e.invoke(g, cl, args, nil, false, false)
			return stepOK
		}
		fr.pc++
		e.spawn(g, cl, args)
		return stepYield
	case *ssa.Send:
		return e.chanSend(g, fr, x)
	case *ssa.Select:
		return e.execSelect(g, fr, x)
	default:
		e.abort("unsupported", fmt.Sprintf("instruction %T", in))
	}
	return stepOK
}

func (e *Engine) jump(fr *Frame, to *ssa.BasicBlock) {
	// loop bound: count visits of blocks reached by a back edge (target index <= source index)
	if to.Index <= fr.block.Index {
		if fr.visits == nil {
			fr.visits = map[*ssa.BasicBlock]int{}
		}
		fr.visits[to]++
		if e.cfg.Unwind > 0 && fr.visits[to] > e.cfg.Unwind {
			e.boundHit("unwind", fmt.Sprintf("%s block %d", fr.fn, to.Index))
		}
	}
	fr.prev = fr.block
	fr.block = to
	fr.pc = 0
}

func (e *Engine) execPhis(fr *Frame) {
	// find predecessor index
	pi := -1
	for i, p := range fr.block.Preds {
		if p == fr.prev {
			pi = i
			break
		}
	}
	if pi < 0 {
		panic("phi: predecessor not found")
	}
	var vals []Value
	var phis []*ssa.Phi
	for i := fr.pc; i < len(fr.block.Instrs); i++ {
		ph, ok := fr.block.Instrs[i].(*ssa.Phi)
		if !ok {
			break
		}
		phis = append(phis, ph)
		vals = append(vals, e.get(fr, ph.Edges[pi]))
	}
	for i, ph := range phis {
		e.set(fr, ph, vals[i])
	}
	fr.pc += len(phis)
}

// ---------- return / panic / defers ----------

func (e *Engine) doReturn(g *Goroutine, fr *Frame, res Value) stepResult {
	g.top = fr.caller
	if fr.nestedStop {
		g.nestedRes = res
		return stepNestedDone
	}
	if fr.isDefer {
		// deferred call finished; caller re-executes RunDefers or continues unwinding
		if fr.panicDefer && g.panic != nil {
			g.unwinding = true
		}
		return stepOK
	}
	if fr.caller == nil {
		g.status = gDone
		return stepDone
	}
	if fr.callSite != nil {
		e.set(fr.caller, fr.callSite, res)
	}
	fr.caller.pc++
	return stepOK
}

func (e *Engine) mkError(msg string) Iface {
	s := e.constString(msg)
	return e.mkErrorFromString(s)
}

func (e *Engine) mkErrorFromString(s String) Iface {
	pkg := e.prog.ImportedPackage("errors")
	t := pkg.Type("errorString").Type()
	o := e.newObject(1, "errorString")
	o.Cells[0] = s
	return Iface{T: types.NewPointer(t), V: Ptr{Obj: o}}
}

// goPanic raises a Go run-time panic at the current instruction.
func (e *Engine) goPanic(g *Goroutine, msg string) {
	site := e.siteOf(g.top)
	e.tracef("runtime panic: %s at %s", msg, site)
	v := e.mkError("runtime error: " + msg)
	e.startPanic(g, v, site)
}

func (e *Engine) startPanic(g *Goroutine, v Iface, site string) {
	g.panic = &panicState{val: v, site: site}
	g.unwinding = true
}

// unwind performs one step of panic propagation on g.
func (e *Engine) unwind(g *Goroutine) stepResult {
	fr := g.top
	if fr == nil {
		e.uncaughtPanic(g)
	}
	if g.panic.recovered && !g.panic.exit {
		// the frame whose deferred call recovered: run remaining defers, then return via Recover block
		g.panic = nil
		g.unwinding = false
		if fr.fn.Recover != nil {
			fr.prev = fr.block
			fr.block = fr.fn.Recover
			fr.pc = 0
			// remaining defers must still run: the Recover block does not contain RunDefers,
			// so run them here first.
			if len(fr.defers) > 0 {
				e.runRemainingDefers(g, fr)
			}
			return stepOK
		}
		if len(fr.defers) > 0 {
			e.runRemainingDefers(g, fr)
		}
		return e.doReturn(g, fr, e.zeroResults(fr.fn))
	}
	if len(fr.defers) > 0 && !g.panic.exit {
		d := fr.defers[len(fr.defers)-1]
		fr.defers = fr.defers[:len(fr.defers)-1]
		g.unwinding = false
		if !e.invoke(g, d.fn, d.args, nil, true, true) {
			e.abort("unsupported", "blocking deferred call during panic")
		}
		if g.top == fr && g.panic != nil {
			// intrinsic deferred call completed immediately
			g.unwinding = true
		}
		return stepOK
	}
	// pop frame
	if fr.nestedStop {
		// panic escapes a nested call: propagate to the outer interpreter loop's goroutine
		g.top = fr.caller
		if g.top == nil {
			e.uncaughtPanic(g)
		}
		// The nested caller is an intrinsic; treat as unsupported unless the goroutine has frames
		e.abort("unsupported", "panic through nested intrinsic call")
	}
	g.top = fr.caller
	if g.top == nil {
		e.uncaughtPanic(g)
	}
	if fr.isDefer && fr.panicDefer {
		// a deferred call (run during panicking) itself panicked: continue unwinding in its parent
	}
	return stepOK
}

func (e *Engine) runRemainingDefers(g *Goroutine, fr *Frame) {
	for len(fr.defers) > 0 {
		d := fr.defers[len(fr.defers)-1]
		fr.defers = fr.defers[:len(fr.defers)-1]
		e.callNested(g, d.fn, d.args)
	}
}

func (e *Engine) zeroResults(fn *ssa.Function) Value {
	rs := fn.Signature.Results()
	switch rs.Len() {
	case 0:
		return nil
	case 1:
		return e.zeroValue(rs.At(0).Type())
	}
	return e.zeroValue(rs)
}

func (e *Engine) uncaughtPanic(g *Goroutine) {
	ps := g.panic
	msg := "panic"
	if ps != nil {
		msg = e.panicMessage(ps.val)
	}
	if ps != nil && ps.exit {
		if e.p.tolerate["exit"] {
			e.abort("exit-tolerated", msg)
		}
		e.recordViolation("exit", "process-exit", ps.site, "process terminated: "+msg, nil)
		e.abort("violation", "exit")
	}
	if e.cfg.PanicOK || e.p.tolerate["panic"] {
		e.abort("panic-tolerated", msg)
	}
	site := "?"
	if ps != nil {
		site = ps.site
	}
	e.recordViolation("panic", "uncaught-panic", site, msg, nil)
	e.abort("violation", "panic")
}

func (e *Engine) panicMessage(v Iface) string {
	if v.T == nil {
		return "panic(nil)"
	}
	switch x := v.V.(type) {
	case String:
		return describe(x)
	case Ptr:
		if x.Obj != nil && len(x.Obj.Cells) > 0 {
			if s, ok := x.Obj.Cells[x.Off].(String); ok {
				return describe(s)
			}
		}
	}
	return fmt.Sprintf("panic(%s)", v.T)
}

func (e *Engine) goAsCall(fn *ssa.Function) bool {
	name := fn.String()
	for _, p := range e.cfg.GoAsCall {
		if strings.HasPrefix(name, p) {
			return true
		}
	}
	return false
}
