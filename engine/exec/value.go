package exec

import (
	"fmt"
	"go/types"

	"golang.org/x/tools/go/ssa"

	"gosym/term"
)

// Value is one of: *term.T (scalar), Ptr, Slice, String, Iface, *MapObj, *ChanObj,
// *Closure, Agg (flattened aggregate), Tuple.
type Value interface{}

// Object is a heap/stack/global object: a flat array of single-cell values.
type Object struct {
	ID         int
	Cells      []Value
	Name       string
	ReadOnly   bool
	Persistent bool // created during once-per-engine stdlib initialisation
}

type Ptr struct {
	Obj *Object
	Off int
	// Fn is set for pointers that are really function/unsafe tokens (unused normally)
}

func (p Ptr) IsNil() bool { return p.Obj == nil }

// SymPtr is a pointer to element Idx (symbolic, in bounds) of an array of single-cell
// elements starting at cell Base of Obj. Loads become ite chains, stores guarded updates.
type SymPtr struct {
	Obj  *Object
	Base int
	Idx  *term.T // 64-bit, proven 0 <= Idx < N
	N    int
}

// Slice: element i lives at cell Base + (Off+i)*stride of Obj.
type Slice struct {
	Obj  *Object
	Base int
	Off  *term.T // 64-bit, in elements
	Len  *term.T // 64-bit
	Cap  *term.T // 64-bit
}

type String struct {
	Obj  *Object
	Base int
	Off  *term.T
	Len  *term.T
}

type Iface struct {
	T types.Type // nil => nil interface
	V Value
}

type MapObj struct {
	ID    int
	Keys  []Value
	Vals  []Value
	KeyT  types.Type
	ValT  types.Type
	Dead  []bool // deleted entries (kept to preserve order indices)
	NLive int
}

type Closure struct {
	Fn        *ssa.Function
	Free      []Value
	Intrinsic string // non-empty: engine-provided function
	BoundRecv Value
}

type Agg []Value
type Tuple []Value

// RangeIter is the state of a range over map or string.
type RangeIter struct {
	M    *MapObj
	Idx  int
	Perm []int
	S    String
	IsS  bool
}

type layoutInfo struct {
	size   int
	fields []int // struct: cell offset of each field
}

func (e *Engine) layout(t types.Type) *layoutInfo {
	if li, ok := e.layouts[t]; ok {
		return li
	}
	li := &layoutInfo{}
	switch u := t.Underlying().(type) {
	case *types.Struct:
		off := 0
		for i := 0; i < u.NumFields(); i++ {
			li.fields = append(li.fields, off)
			off += e.layout(u.Field(i).Type()).size
		}
		li.size = off
	case *types.Array:
		li.size = int(u.Len()) * e.layout(u.Elem()).size
	case *types.Tuple:
		panic("layout of tuple")
	default:
		li.size = 1
	}
	e.layouts[t] = li
	return li
}

func (e *Engine) sizeOf(t types.Type) int { return e.layout(t).size }

func isAggregate(t types.Type) bool {
	switch t.Underlying().(type) {
	case *types.Struct, *types.Array:
		return true
	}
	return false
}

// bitWidth returns the bit-vector width for a basic scalar type (0 for bool).
func bitWidth(t types.Type) (w int, ok bool) {
	b, isB := t.Underlying().(*types.Basic)
	if !isB {
		return 0, false
	}
	switch b.Kind() {
	case types.Bool, types.UntypedBool:
		return 0, true
	case types.Int8, types.Uint8:
		return 8, true
	case types.Int16, types.Uint16:
		return 16, true
	case types.Int32, types.Uint32, types.Float32, types.UntypedRune:
		return 32, true
	case types.Int, types.Uint, types.Int64, types.Uint64, types.Uintptr, types.Float64, types.UntypedInt, types.UntypedFloat:
		return 64, true
	}
	return 0, false
}

func isSigned(t types.Type) bool {
	if t == nil {
		return false
	}
	b, ok := t.Underlying().(*types.Basic)
	return ok && b.Info()&types.IsInteger != 0 && b.Info()&types.IsUnsigned == 0
}

func isFloat(t types.Type) bool {
	if t == nil {
		return false
	}
	b, ok := t.Underlying().(*types.Basic)
	return ok && b.Info()&types.IsFloat != 0
}

func isString(t types.Type) bool {
	b, ok := t.Underlying().(*types.Basic)
	return ok && b.Info()&types.IsString != 0
}

func isUnsafePointer(t types.Type) bool {
	b, ok := t.Underlying().(*types.Basic)
	return ok && b.Kind() == types.UnsafePointer
}

// zeroCell returns the zero value for a single-cell type.
func (e *Engine) zeroCell(t types.Type) Value {
	switch u := t.Underlying().(type) {
	case *types.Basic:
		if u.Info()&types.IsString != 0 {
			return e.emptyString()
		}
		if u.Kind() == types.UnsafePointer {
			return Ptr{}
		}
		if u.Kind() == types.UntypedNil {
			return Ptr{}
		}
		w, ok := bitWidth(t)
		if !ok {
			panic(fmt.Sprintf("zeroCell: unsupported basic type %s", t))
		}
		if w == 0 {
			return e.tb.False
		}
		return e.tb.Const(w, 0)
	case *types.Pointer:
		return Ptr{}
	case *types.Slice:
		return Slice{Off: e.c64(0), Len: e.c64(0), Cap: e.c64(0)}
	case *types.Interface:
		return Iface{}
	case *types.Map:
		return (*MapObj)(nil)
	case *types.Chan:
		return (*ChanObj)(nil)
	case *types.Signature:
		return (*Closure)(nil)
	case *types.TypeParam:
		panic("zeroCell of type parameter (generic not instantiated)")
	}
	panic(fmt.Sprintf("zeroCell: unsupported type %s", t))
}

// zeroCells appends the flattened zero value of t.
func (e *Engine) zeroCells(dst []Value, t types.Type) []Value {
	switch u := t.Underlying().(type) {
	case *types.Struct:
		for i := 0; i < u.NumFields(); i++ {
			dst = e.zeroCells(dst, u.Field(i).Type())
		}
		return dst
	case *types.Array:
		n := int(u.Len())
		if n == 0 {
			return dst
		}
		if !isAggregate(u.Elem()) {
			z := e.zeroCell(u.Elem())
			for i := 0; i < n; i++ {
				dst = append(dst, z)
			}
			return dst
		}
		for i := 0; i < n; i++ {
			dst = e.zeroCells(dst, u.Elem())
		}
		return dst
	}
	return append(dst, e.zeroCell(t))
}

// zeroValue returns the register-level zero value of t.
func (e *Engine) zeroValue(t types.Type) Value {
	if tt, ok := t.(*types.Tuple); ok {
		r := make(Tuple, tt.Len())
		for i := range r {
			r[i] = e.zeroValue(tt.At(i).Type())
		}
		return r
	}
	if isAggregate(t) {
		return Agg(e.zeroCells(nil, t))
	}
	return e.zeroCell(t)
}

func (e *Engine) c64(v int64) *term.T { return e.tb.Const(64, uint64(v)) }

func (e *Engine) emptyString() String {
	return String{Off: e.c64(0), Len: e.c64(0)}
}

func (e *Engine) newObject(n int, name string) *Object {
	e.objSeq++
	return &Object{ID: e.objSeq, Cells: make([]Value, n), Name: name, Persistent: e.inPersistentInit}
}

// constString returns an immutable string value for a Go constant.
func (e *Engine) constString(s string) String {
	if v, ok := e.strCache[s]; ok {
		return v
	}
	o := &Object{ID: -1, Cells: make([]Value, len(s)), Name: "conststr", ReadOnly: true, Persistent: true}
	for i := 0; i < len(s); i++ {
		o.Cells[i] = e.tb.Const(8, uint64(s[i]))
	}
	v := String{Obj: o, Off: e.c64(0), Len: e.c64(int64(len(s)))}
	e.strCache[s] = v
	return v
}

// newString builds a fresh string from byte terms.
func (e *Engine) newString(bs []*term.T) String {
	if len(bs) == 0 {
		return e.emptyString()
	}
	o := e.newObject(len(bs), "str")
	for i, b := range bs {
		o.Cells[i] = b
	}
	return String{Obj: o, Off: e.c64(0), Len: e.c64(int64(len(bs)))}
}

func describe(v Value) string {
	switch x := v.(type) {
	case nil:
		return "<nil>"
	case *term.T:
		return x.String()
	case Ptr:
		if x.Obj == nil {
			return "ptr(nil)"
		}
		return fmt.Sprintf("ptr(%s#%d+%d)", x.Obj.Name, x.Obj.ID, x.Off)
	case Slice:
		return fmt.Sprintf("slice(off=%s len=%s cap=%s)", x.Off, x.Len, x.Cap)
	case String:
		if x.Len.IsConst() && x.Off.IsConst() && x.Obj != nil {
			bs := []byte{}
			for i := 0; i < int(x.Len.Val); i++ {
				c, _ := x.Obj.Cells[x.Base+int(x.Off.Val)+i].(*term.T)
				if c != nil && c.IsConst() {
					bs = append(bs, byte(c.Val))
				} else {
					bs = append(bs, '?')
				}
			}
			return fmt.Sprintf("%q", string(bs))
		}
		return fmt.Sprintf("string(len=%s)", x.Len)
	case Iface:
		if x.T == nil {
			return "iface(nil)"
		}
		return fmt.Sprintf("iface(%s: %s)", x.T, describe(x.V))
	case Agg:
		return fmt.Sprintf("agg[%d]", len(x))
	case Tuple:
		return fmt.Sprintf("tuple[%d]", len(x))
	case *Closure:
		if x == nil {
			return "func(nil)"
		}
		if x.Fn != nil {
			return "func(" + x.Fn.String() + ")"
		}
		return "func(" + x.Intrinsic + ")"
	}
	return fmt.Sprintf("%T", v)
}
