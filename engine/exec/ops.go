package exec

import (
	"fmt"
	"go/token"
	"go/types"

	"golang.org/x/tools/go/ssa"

	"gosym/term"
)

func (e *Engine) binop(g *Goroutine, op token.Token, x, y Value, xt, yt types.Type) Value {
	switch a := x.(type) {
	case *term.T:
		b := y.(*term.T)
		return e.binopTerm(g, op, a, b, xt, yt)
	case String:
		b := y.(String)
		switch op {
		case token.ADD:
			return e.strConcat(a, b)
		case token.EQL:
			return e.strEq(a, b)
		case token.NEQ:
			return e.tb.Not(e.strEq(a, b))
		case token.LSS:
			return e.strLess(a, b)
		case token.GTR:
			return e.strLess(b, a)
		case token.LEQ:
			return e.tb.Not(e.strLess(b, a))
		case token.GEQ:
			return e.tb.Not(e.strLess(a, b))
		}
	default:
		switch op {
		case token.EQL:
			return e.valueEq(x, y, xt)
		case token.NEQ:
			return e.tb.Not(e.valueEq(x, y, xt))
		}
	}
	e.abort("unsupported", fmt.Sprintf("binop %s on %T", op, x))
	return nil
}

func (e *Engine) binopTerm(g *Goroutine, op token.Token, a, b *term.T, xt, yt types.Type) Value {
	tb := e.tb
	if a.W == 0 {
		switch op {
		case token.EQL:
			return tb.Eq(a, b)
		case token.NEQ:
			return tb.Not(tb.Eq(a, b))
		case token.AND, token.LAND:
			return tb.And(a, b)
		case token.OR, token.LOR:
			return tb.Or(a, b)
		case token.XOR:
			return tb.Not(tb.Eq(a, b))
		}
		e.abort("unsupported", "bool binop "+op.String())
	}
	if isFloat(xt) {
		switch op {
		case token.ADD:
			return tb.Fp("add", a.W, a, b)
		case token.SUB:
			return tb.Fp("sub", a.W, a, b)
		case token.MUL:
			return tb.Fp("mul", a.W, a, b)
		case token.QUO:
			return tb.Fp("div", a.W, a, b)
		case token.EQL:
			return tb.Fp("eq", 0, a, b)
		case token.NEQ:
			return tb.Not(tb.Fp("eq", 0, a, b))
		case token.LSS:
			return tb.Fp("lt", 0, a, b)
		case token.LEQ:
			return tb.Fp("le", 0, a, b)
		case token.GTR:
			return tb.Fp("lt", 0, b, a)
		case token.GEQ:
			return tb.Fp("le", 0, b, a)
		}
		e.abort("unsupported", "float binop "+op.String())
	}
	signed := isSigned(xt)
	switch op {
	case token.ADD:
		return tb.Bin(term.KAdd, a, b)
	case token.SUB:
		return tb.Bin(term.KSub, a, b)
	case token.MUL:
		return tb.Bin(term.KMul, a, b)
	case token.QUO, token.REM:
		if !e.Branch(tb.Not(tb.Eq(b, tb.Const(b.W, 0)))) {
			e.goPanic(g, "integer divide by zero")
			return tb.Const(a.W, 0)
		}
		k := term.KUDiv
		if op == token.REM {
			k = term.KURem
		}
		if signed {
			k = term.KSDiv
			if op == token.REM {
				k = term.KSRem
			}
		}
		return tb.Bin(k, a, b)
	case token.AND:
		return tb.Bin(term.KBvAnd, a, b)
	case token.OR:
		return tb.Bin(term.KBvOr, a, b)
	case token.XOR:
		return tb.Bin(term.KBvXor, a, b)
	case token.AND_NOT:
		return tb.Bin(term.KBvAnd, a, tb.BvNot(b))
	case token.SHL, token.SHR:
		// shift count: negative signed count panics
		if isSigned(yt) {
			if !e.Branch(tb.Not(tb.Cmp(term.KSlt, b, tb.Const(b.W, 0)))) {
				e.goPanic(g, "negative shift amount")
				return tb.Const(a.W, 0)
			}
		}
		var amt *term.T
		if b.W == a.W {
			amt = b
		} else if b.W < a.W {
			amt = tb.ZExt(b, a.W)
		} else {
			// saturate then truncate
			big := tb.Cmp(term.KUle, tb.Const(b.W, uint64(a.W)), b)
			amt = tb.Ite(big, tb.Const(a.W, uint64(a.W)), tb.Extract(b, a.W-1, 0))
		}
		if op == token.SHL {
			return tb.Bin(term.KShl, a, amt)
		}
		if signed {
			return tb.Bin(term.KAShr, a, amt)
		}
		return tb.Bin(term.KLShr, a, amt)
	case token.EQL:
		return tb.Eq(a, b)
	case token.NEQ:
		return tb.Not(tb.Eq(a, b))
	case token.LSS:
		if signed {
			return tb.Cmp(term.KSlt, a, b)
		}
		return tb.Cmp(term.KUlt, a, b)
	case token.LEQ:
		if signed {
			return tb.Cmp(term.KSle, a, b)
		}
		return tb.Cmp(term.KUle, a, b)
	case token.GTR:
		if signed {
			return tb.Cmp(term.KSlt, b, a)
		}
		return tb.Cmp(term.KUlt, b, a)
	case token.GEQ:
		if signed {
			return tb.Cmp(term.KSle, b, a)
		}
		return tb.Cmp(term.KUle, b, a)
	}
	e.abort("unsupported", "int binop "+op.String())
	return nil
}

// valueEq compares two non-scalar, non-string values of static type t.
func (e *Engine) valueEq(x, y Value, t types.Type) *term.T {
	switch a := x.(type) {
	case *term.T:
		return e.tb.Eq(a, y.(*term.T))
	case String:
		return e.strEq(a, y.(String))
	case SymPtr:
		return e.valueEq(e.asPtr(a), y, t)
	case Ptr:
		b := e.asPtr(y)
		return e.tb.Bool(a.Obj == b.Obj && (a.Obj == nil || a.Off == b.Off))
	case Iface:
		b := y.(Iface)
		if a.T == nil || b.T == nil {
			return e.tb.Bool(a.T == nil && b.T == nil)
		}
		if !types.Identical(a.T, b.T) {
			return e.tb.False
		}
		return e.valueEq(a.V, b.V, a.T)
	case *MapObj:
		b := y.(*MapObj)
		return e.tb.Bool(a == b)
	case *ChanObj:
		b := y.(*ChanObj)
		return e.tb.Bool(a == b)
	case *Closure:
		b := y.(*Closure)
		if a == nil || b == nil {
			return e.tb.Bool(a == nil && b == nil)
		}
		e.abort("unsupported", "comparison of non-nil funcs")
	case Slice:
		b := y.(Slice)
		// only comparison with nil is legal
		if b.Obj == nil && b.Len.IsConst() && b.Len.Val == 0 && b.Cap.IsConst() && b.Cap.Val == 0 {
			return e.tb.Bool(a.Obj == nil)
		}
		if a.Obj == nil {
			return e.tb.Bool(b.Obj == nil)
		}
		return e.tb.False
	case Agg:
		b := y.(Agg)
		res := e.tb.True
		e.walkCells(t, func(off int, ct types.Type) {
			res = e.tb.And(res, e.valueEq(a[off], b[off], ct))
		})
		return res
	case nil:
		return e.tb.Bool(y == nil)
	}
	e.abort("unsupported", fmt.Sprintf("equality on %T", x))
	return nil
}

// walkCells calls f for each leaf cell of type t with its flattened offset and type.
func (e *Engine) walkCells(t types.Type, f func(off int, ct types.Type)) {
	var rec func(t types.Type, base int)
	rec = func(t types.Type, base int) {
		switch u := t.Underlying().(type) {
		case *types.Struct:
			li := e.layout(t)
			for i := 0; i < u.NumFields(); i++ {
				rec(u.Field(i).Type(), base+li.fields[i])
			}
		case *types.Array:
			sz := e.sizeOf(u.Elem())
			for i := 0; i < int(u.Len()); i++ {
				rec(u.Elem(), base+i*sz)
			}
		default:
			f(base, t)
		}
	}
	rec(t, 0)
}

func (e *Engine) unop(g *Goroutine, x *ssa.UnOp, v Value) Value {
	switch x.Op {
	case token.MUL:
		if sp, ok := v.(SymPtr); ok {
			return e.symLoad(sp)
		}
		p := v.(Ptr)
		if p.Obj == nil {
			e.goPanic(g, "nil pointer dereference (load)")
			return e.zeroValue(x.Type())
		}
		return e.load(p, x.Type())
	case token.NOT:
		return e.tb.Not(v.(*term.T))
	case token.SUB:
		t := v.(*term.T)
		if isFloat(x.Type()) {
			return e.tb.Fp("neg", t.W, t)
		}
		return e.tb.Neg(t)
	case token.XOR:
		return e.tb.BvNot(v.(*term.T))
	}
	e.abort("unsupported", "unop "+x.Op.String())
	return nil
}

func (e *Engine) convert(g *Goroutine, v Value, from, to types.Type) Value {
	fu, tu := from.Underlying(), to.Underlying()
	tb := e.tb
	// pointer <-> unsafe.Pointer <-> pointer, uintptr from pointer unsupported
	if sp, ok := v.(SymPtr); ok {
		v = e.asPtr(sp)
	}
	if _, ok := v.(Ptr); ok {
		if _, isP := tu.(*types.Pointer); isP || isUnsafePointer(to) {
			return v
		}
		if b, ok := tu.(*types.Basic); ok && b.Kind() == types.Uintptr {
			p := v.(Ptr)
			if p.Obj == nil {
				return e.c64(0)
			}
			// opaque address: object id * 2^20 + offset (only for hashing/printing uses)
			return e.c64(int64(p.Obj.ID)<<20 + int64(p.Off)*8)
		}
	}
	switch a := v.(type) {
	case *term.T:
		tbas, ok := tu.(*types.Basic)
		if !ok {
			break
		}
		if tbas.Info()&types.IsString != 0 {
			// integer -> string (rune)
			if a.IsConst() {
				return e.constString(string(rune(a.Int())))
			}
			// symbolic code point: 1-byte and 2-byte UTF-8 forms (values below 0x800)
			v := tb.Resize(a, 32, isSigned(from))
			if e.Branch(tb.Cmp(term.KUlt, v, tb.Const(32, 0x80))) {
				return e.newString([]*term.T{tb.Extract(v, 7, 0)})
			}
			if e.Branch(tb.Cmp(term.KUlt, v, tb.Const(32, 0x800))) {
				b0 := tb.Bin(term.KBvOr, tb.Const(8, 0xC0), tb.Extract(tb.Bin(term.KLShr, v, tb.Const(32, 6)), 7, 0))
				b1 := tb.Bin(term.KBvOr, tb.Const(8, 0x80), tb.Bin(term.KBvAnd, tb.Extract(v, 7, 0), tb.Const(8, 0x3F)))
				return e.newString([]*term.T{b0, b1})
			}
			e.abort("unsupported", "symbolic rune >= 0x800 to string")
		}
		w, ok := bitWidth(to)
		if !ok {
			break
		}
		ff, tf := isFloat(from), isFloat(to)
		switch {
		case ff && tf:
			if a.W == w {
				return a
			}
			if a.W == 32 {
				return tb.Fp("f32to64", 64, a)
			}
			return tb.Fp("f64to32", 32, a)
		case ff && !tf:
			var r *term.T
			if isSigned(to) {
				r = tb.Fp("f2s64", 64, a)
			} else {
				r = tb.Fp("f2u64", 64, a)
			}
			return tb.Resize(r, w, false)
		case !ff && tf:
			op := "u2f"
			if isSigned(from) {
				op = "s2f"
			}
			// convert from the operand's own width (a 64-bit to_fp is much heavier for the solver)
			return tb.Fp(fmt.Sprintf("%s%d", op, w), w, a)
		default:
			if a.W == 0 {
				break
			}
			return tb.Resize(a, w, isSigned(from))
		}
	case String:
		if sl, ok := tu.(*types.Slice); ok {
			eb, _ := sl.Elem().Underlying().(*types.Basic)
			if eb != nil && eb.Kind() == types.Uint8 {
				bs := e.strBytes(a)
				o := e.newObject(len(bs), "bytes")
				for i, b := range bs {
					o.Cells[i] = b
				}
				if len(bs) == 0 {
					// non-nil empty slice
					return Slice{Obj: o, Off: e.c64(0), Len: e.c64(0), Cap: e.c64(0)}
				}
				return Slice{Obj: o, Off: e.c64(0), Len: e.c64(int64(len(bs))), Cap: e.c64(int64(len(bs)))}
			}
			if eb != nil && eb.Kind() == types.Int32 {
				// []rune(s): concrete ASCII only
				bs := e.strBytes(a)
				o := e.newObject(len(bs), "runes")
				for i, b := range bs {
					if !e.Branch(tb.Cmp(term.KUlt, b, tb.Const(8, 0x80))) {
						e.abort("unsupported", "non-ASCII in []rune conversion")
					}
					o.Cells[i] = tb.ZExt(b, 32)
				}
				return Slice{Obj: o, Off: e.c64(0), Len: e.c64(int64(len(bs))), Cap: e.c64(int64(len(bs)))}
			}
		}
		if isString(to) {
			return a
		}
	case Slice:
		if isString(to) {
			fs := fu.(*types.Slice)
			eb, _ := fs.Elem().Underlying().(*types.Basic)
			cells := e.sliceTerms(a, 1)
			if eb != nil && eb.Kind() == types.Int32 {
				bs := make([]*term.T, len(cells))
				for i, c := range cells {
					if !e.Branch(tb.Cmp(term.KUlt, c, tb.Const(32, 0x80))) {
						e.abort("unsupported", "non-ASCII rune to string")
					}
					bs[i] = tb.Extract(c, 7, 0)
				}
				return e.newString(bs)
			}
			return e.newString(cells)
		}
		if _, ok := tu.(*types.Slice); ok {
			return a
		}
		if pt, ok := tu.(*types.Pointer); ok {
			// slice to array pointer conversion via Convert
			at := pt.Elem().Underlying().(*types.Array)
			if !e.Branch(tb.Cmp(term.KUle, e.c64(at.Len()), a.Len)) {
				e.goPanic(g, "slice to array pointer: length too short")
				return Ptr{}
			}
			off := int(e.Concretize(a.Off, "slice offset"))
			return Ptr{Obj: a.Obj, Off: a.Base + off*e.sizeOf(at.Elem())}
		}
	}
	e.abort("unsupported", fmt.Sprintf("convert %s -> %s (%T)", from, to, v))
	return nil
}

func (e *Engine) implements(dyn types.Type, iface *types.Interface) bool {
	return types.Implements(dyn, iface)
}

func (e *Engine) typeAssert(g *Goroutine, fr *Frame, x *ssa.TypeAssert) bool {
	v := e.get(fr, x.X).(Iface)
	ok := false
	if v.T != nil {
		if it, isI := x.AssertedType.Underlying().(*types.Interface); isI {
			ok = e.implements(v.T, it)
		} else {
			ok = types.Identical(v.T, x.AssertedType)
		}
	}
	var res Value
	if ok {
		if _, isI := x.AssertedType.Underlying().(*types.Interface); isI {
			res = v
		} else {
			res = v.V
		}
	} else {
		res = e.zeroValue(x.AssertedType)
	}
	if x.CommaOk {
		e.set(fr, x, Tuple{res, e.tb.Bool(ok)})
		return true
	}
	if !ok {
		e.goPanic(g, fmt.Sprintf("interface conversion: %v is not %s", v.T, x.AssertedType))
		return false
	}
	e.set(fr, x, res)
	return true
}
