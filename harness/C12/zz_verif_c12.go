package transport

// C12 harness: graceful shutdown answers every request already received, notifies clients,
// and Shutdown returns once all connections have drained or its context expires.
// Real code: TarsServer.Shutdown, tcpHandler.Handle/recv/handleConn/OnShutdown/sendCloseMsg/
// CloseIdles, TarsServer.invoke, gpool. Fakes: listener and connection (with read deadlines on
// the virtual clock), a protocol whose Invoke takes a symbolic virtual duration.

import (
	"context"
	"errors"
	"net"
	"sync/atomic"
	"time"

	"github.com/TarsCloud/TarsGo/tars/protocol"
	"github.com/TarsCloud/TarsGo/tars/util/current"
	"github.com/TarsCloud/TarsGo/tars/util/gpool"
	"github.com/TarsCloud/TarsGo/tars/zzverif/vapi"
)

type c12Timeout struct{}

func (c12Timeout) Error() string   { return "i/o timeout" }
func (c12Timeout) Timeout() bool   { return true }
func (c12Timeout) Temporary() bool { return true }

type c12Addr struct{}

func (c12Addr) Network() string { return "tcp" }
func (c12Addr) String() string  { return "10.0.0.7:7777" }

// every connection has its own remote address (the local one is the listen address)
type c12Remote struct{ id int }

func (c12Remote) Network() string   { return "tcp" }
func (a c12Remote) String() string { return "10.0.0.8:" + string([]byte{byte('5'), byte('0'), byte('0'), byte('0'), byte('0' + a.id)}) }

type c12Conn struct {
	in       chan []byte
	closedCh chan struct{}
	closed   int32
	deadline int64 // read deadline, virtual ns (from vapi.NowNs); 0 = none
	wdeadline int64 // write deadline, same clock; 0 = none
	writeTimeouts int32
	writes   [][]byte
	readBytes int32
	writesAfterClose int32
	id       int
}

func (c *c12Conn) Read(b []byte) (int, error) {
	if atomic.LoadInt32(&c.closed) == 1 {
		return 0, net.ErrClosed
	}
	select {
	case d := <-c.in:
		atomic.AddInt32(&c.readBytes, int32(len(d)))
		return copy(b, d), nil
	default:
	}
	var tmo <-chan time.Time
	if dl := atomic.LoadInt64(&c.deadline); dl != 0 {
		d := time.Duration(dl - c12Now())
		if d <= 0 {
			return 0, c12Timeout{}
		}
		tmo = time.After(d)
	}
	select {
	case d := <-c.in:
		atomic.AddInt32(&c.readBytes, int32(len(d)))
		return copy(b, d), nil
	case <-c.closedCh:
		return 0, net.ErrClosed
	case <-tmo:
		return 0, c12Timeout{}
	}
}
func (c *c12Conn) Write(b []byte) (int, error) {
	if atomic.LoadInt32(&c.closed) == 1 {
		atomic.AddInt32(&c.writesAfterClose, 1)
		return 0, net.ErrClosed
	}
	if dl := atomic.LoadInt64(&c.wdeadline); dl != 0 && dl-c12Now() <= 0 {
		// like a real socket: a write after its deadline has passed fails
		atomic.AddInt32(&c.writeTimeouts, 1)
		return 0, c12Timeout{}
	}
	d := make([]byte, len(b))
	copy(d, b)
	c.writes = append(c.writes, d)
	return len(b), nil
}
func (c *c12Conn) Close() error {
	if atomic.CompareAndSwapInt32(&c.closed, 0, 1) {
		close(c.closedCh)
	}
	return nil
}
func (c *c12Conn) LocalAddr() net.Addr           { return c12Addr{} }
func (c *c12Conn) RemoteAddr() net.Addr          { return c12Remote{c.id} }
func (c *c12Conn) SetDeadline(t time.Time) error {
	_ = c.SetWriteDeadline(t)
	return c.SetReadDeadline(t)
}
func (c *c12Conn) SetReadDeadline(t time.Time) error {
	if t.IsZero() {
		atomic.StoreInt64(&c.deadline, 0)
	} else {
		atomic.StoreInt64(&c.deadline, c12Now()+int64(time.Until(t)))
	}
	return nil
}
func (c *c12Conn) SetWriteDeadline(t time.Time) error {
	if t.IsZero() {
		atomic.StoreInt64(&c.wdeadline, 0)
	} else {
		atomic.StoreInt64(&c.wdeadline, c12Now()+int64(time.Until(t)))
	}
	return nil
}

var c12Start = time.Now()

func c12Now() int64 { return int64(time.Since(c12Start)) }

// listener: hands out the prepared connections, then times out every AcceptTimeout
type c12Listener struct {
	conns  chan net.Conn
	closed int32
	handed int32 // connections actually accepted by the server
}

func (l *c12Listener) Accept() (net.Conn, error) {
	select {
	case c := <-l.conns:
		atomic.AddInt32(&l.handed, 1)
		return c, nil
	default:
	}
	time.Sleep(200 * time.Millisecond)
	return nil, c12Timeout{}
}
func (l *c12Listener) Close() error   { atomic.StoreInt32(&l.closed, 1); return nil }
func (l *c12Listener) Addr() net.Addr { return c12Addr{} }

// redirect target of net.Dial (CloseIdles' wake-up hack)
func VerifC12Dial(network, address string) (net.Conn, error) { return nil, errors.New("dial refused") }

type c12Proto struct {
	dur      time.Duration
	started  int32
	finished int32
}

func (p *c12Proto) Invoke(ctx context.Context, pkg []byte) []byte {
	atomic.AddInt32(&p.started, 1)
	current.SetPacketTypeFromContext(ctx, 0)
	if pkg[4] == 'L' {
		time.Sleep(2000 * time.Millisecond) // a long request (two-connection scenario)
	} else if p.dur > 0 {
		time.Sleep(p.dur)
	}
	atomic.AddInt32(&p.finished, 1)
	return []byte{0, 0, 0, 6, 'R', pkg[4]}
}
func (p *c12Proto) ParsePackage(buff []byte) (int, int) { return protocol.TarsRequest(buff) }
func (p *c12Proto) InvokeTimeout(pkg []byte) []byte     { return []byte{0, 0, 0, 5, 'T'} }
func (p *c12Proto) GetCloseMsg() []byte                 { return []byte{0, 0, 0, 5, 'C'} }
func (p *c12Proto) DoClose(ctx context.Context)         {}

func c12Shutdown(nreq int, pool int) {
	// handler duration 0 / 300 / 600 ms, or 3 s (longer than the 2 s idle window of the shutdown poller)
	dur := []time.Duration{0, 300 * time.Millisecond, 600 * time.Millisecond, 3 * time.Second}[vapi.Choice("dur", 4)]
	proto := &c12Proto{dur: dur}
	cfg := &TarsServerConf{Proto: "tcp", Address: "10.0.0.7:7777", AcceptTimeout: 200 * time.Millisecond, MaxInvoke: int32(pool), QueueCap: 4}
	if pool > 0 && dur == 600*time.Millisecond && vapi.Bool("handletimeout") {
		// a handle timeout above every single handler, but below the time the queued requests need
		// together: no handler times out, Shutdown must still wait for all of them
		cfg.HandleTimeout = time.Second
	}
	ts := NewTarsServer(proto, cfg)
	h := &tcpHandler{config: cfg, server: ts}
	ts.handle = h
	ln := &c12Listener{conns: make(chan net.Conn, 1)}
	h.listener = ln
	if pool > 0 {
		h.pool = newC12Pool(pool)
	}
	conn := &c12Conn{in: make(chan []byte, 4), closedCh: make(chan struct{})}
	// the client has already sent nreq complete requests in one segment
	var seg []byte
	for i := 0; i < nreq; i++ {
		seg = append(seg, 0, 0, 0, 5, byte('a'+i))
	}
	conn.in <- seg
	ln.conns <- conn
	handleDone := make(chan struct{})
	go func() { _ = h.Handle(); close(handleDone) }()
	// shutdown is requested at a symbolic point: before / while / after the requests are handled
	time.Sleep(time.Duration(vapi.Choice("when", 3)) * 250 * time.Millisecond)
	ctx, cancel := context.WithTimeout(context.Background(), 20*time.Second)
	t0 := c12Now()
	err := ts.Shutdown(ctx)
	took := time.Duration(c12Now() - t0)
	cancel()
	vapi.Check(err == nil, "Shutdown returns without error")
	vapi.Quiesce()
	// every request already read from the connection is executed and answered before the close
	answered := 0
	notified := 0
	for _, w := range conn.writes {
		if len(w) >= 5 && w[4] == 'R' {
			answered++
		}
		if len(w) >= 5 && w[4] == 'C' {
			notified++
		}
	}
	started := int(atomic.LoadInt32(&proto.started))
	read := int(atomic.LoadInt32(&conn.readBytes)) / 5 // requests the server has read from the connection
	vapi.Check(started == read, "every request already read from the connection is executed")
	vapi.Check(answered == read, "every request already read is answered before its connection is closed")
	vapi.Check(atomic.LoadInt32(&conn.writesAfterClose) == 0, "no response is written after the connection was closed")
	if read > 0 {
		vapi.Check(notified >= 1, "the connected client is sent the reconnect notification")
		vapi.Check(atomic.LoadInt32(&conn.closed) == 1, "the connection is closed once drained")
	}
	vapi.Check(took < 19*time.Second, "Shutdown returns once the connections have drained, not only at context expiry")
	select {
	case <-handleDone:
	case <-time.After(2 * time.Second):
		vapi.Fail("the accept loop ends (and the pool is released) soon after Shutdown")
	}
}

func VerifC12NoPool() { c12Shutdown(1+vapi.Choice("nreq", 2), 0); vapi.Reach("c12-nopool") }
func VerifC12Pool()   { c12Shutdown(1+vapi.Choice("nreq", 3), 1); vapi.Reach("c12-pool") }

func newC12Pool(n int) *gpool.Pool { return gpool.NewPool(n, 4) }

// VerifC12TwoConns: pool of one worker, connection A has a long request running, connection B's
// request is still queued when Shutdown starts: B's request is executed and answered before B
// is closed.
func VerifC12TwoConns() {
	proto := &c12Proto{}
	cfg := &TarsServerConf{Proto: "tcp", Address: "10.0.0.7:7777", AcceptTimeout: 200 * time.Millisecond, MaxInvoke: 1, QueueCap: 4}
	ts := NewTarsServer(proto, cfg)
	h := &tcpHandler{config: cfg, server: ts}
	ts.handle = h
	ln := &c12Listener{conns: make(chan net.Conn, 2)}
	h.listener = ln
	h.pool = newC12Pool(1)
	a := &c12Conn{in: make(chan []byte, 4), closedCh: make(chan struct{})}
	b := &c12Conn{in: make(chan []byte, 4), closedCh: make(chan struct{}), id: 1}
	a.in <- []byte{0, 0, 0, 5, 'L'}
	ln.conns <- a
	go func() { _ = h.Handle() }()
	time.Sleep(50 * time.Millisecond)
	// the second connection either has a request of its own (queued behind A's) or is an idle
	// keep-alive connection opened later
	bIdle := vapi.Bool("bidle")
	if !bIdle {
		b.in <- []byte{0, 0, 0, 5, 'q'}
	}
	ln.conns <- b
	// the accept loop polls every 200 ms: B is accepted at +200 ms. Shutdown comes at +200 ms (the
	// same instant: B may or may not have been registered - the property says nothing about a
	// client connecting at the very moment of the shutdown, so nothing about notifying it is
	// demanded then) or at +350 ms (B is a connected client)
	whenIdx := vapi.Choice("when", 2)
	time.Sleep(time.Duration(1+whenIdx) * 150 * time.Millisecond)
	ctx, cancel := context.WithTimeout(context.Background(), 20*time.Second)
	err := ts.Shutdown(ctx)
	cancel()
	vapi.Check(err == nil, "Shutdown returns without error")
	// at the moment Shutdown returns every request already received has been answered
	vapi.Check(atomic.LoadInt32(&proto.finished) == atomic.LoadInt32(&proto.started), "two connections: Shutdown returns only after the requests in flight have finished")
	vapi.Quiesce()
	for i, c := range []*c12Conn{a, b} {
		if i >= int(atomic.LoadInt32(&ln.handed)) {
			continue // never accepted by the server (Shutdown came first): nothing is owed to it
		}
		notified := 0
		for _, w := range c.writes {
			if len(w) >= 5 && w[4] == 'C' {
				notified++
			}
		}
		if i == 0 || whenIdx == 1 {
			vapi.Check(notified >= 1, "two connections: every connected client is sent the reconnect notification")
		}
		vapi.Check(atomic.LoadInt32(&c.closed) == 1, "two connections: every connection is closed once drained")
		read := int(atomic.LoadInt32(&c.readBytes)) / 5
		answered := 0
		for _, w := range c.writes {
			if len(w) >= 5 && w[4] == 'R' {
				answered++
			}
		}
		vapi.Check(answered == read, "two connections: every request already read is answered before its connection is closed")
		vapi.Check(atomic.LoadInt32(&c.writesAfterClose) == 0, "two connections: no response is written after the connection was closed")
	}
	vapi.Reach("c12-twoconns")
}
