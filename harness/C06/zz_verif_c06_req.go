package requestf

// C06 harness (struct layer): every proper prefix of a valid ResponsePacket / RequestPacket
// encoding either fails to decode or decodes to exactly the value determined by the complete
// fields present (judged by the strict reference reader); an inflated embedded length fails.

import (
	"github.com/TarsCloud/TarsGo/tars/protocol/codec"
	"github.com/TarsCloud/TarsGo/tars/zzverif/vapi"
)

func c06Rsp() ResponsePacket {
	v := ResponsePacket{IVersion: int16(vapi.Int8("ver")), CPacketType: vapi.Int8("ptype"), IRequestId: c03I32("reqid", true), IMessageType: int32(vapi.Int8("mtype")),
		IRet: int32(vapi.Int8("ret")), SBuffer: c03Bytes("buf", 2), SResultDesc: c03Str("desc", 2)}
	if vapi.Bool("maps") {
		v.Status = map[string]string{"k": c03Str("sv", 1)}
		v.Context = map[string]string{"c": c03Str("cv", 1)}
	}
	return v
}

// strict reference decode of a ResponsePacket; ok=false if the bytes are not a complete well-formed encoding
func c06RefRsp(bs []byte) (ResponsePacket, bool) {
	r := &rr{b: bs}
	var v ResponsePacket
	v.IVersion = int16(r.intField(1, tyShort, true, 0))
	v.CPacketType = int8(r.intField(2, tyByte, true, 0))
	v.IRequestId = int32(r.intField(3, tyInt, true, 0))
	v.IMessageType = int32(r.intField(4, tyInt, true, 0))
	v.IRet = int32(r.intField(5, tyInt, true, 0))
	raw, _ := r.bytesField(6, true)
	for _, b := range raw {
		v.SBuffer = append(v.SBuffer, int8(b))
	}
	v.Status, _ = c03RefMap(r, 7, true)
	v.SResultDesc = string(r.strField(8, false, ""))
	v.Context, _ = c03RefMap(r, 9, false)
	return v, r.atEnd()
}

func VerifC06TruncatedResponse() {
	v := c06Rsp()
	b := codec.NewBuffer()
	vapi.Check(v.WriteTo(b) == nil, "encode")
	full := b.ToBytes()
	cut := vapi.Len("cut", 40)
	vapi.Assume(cut < len(full))
	pre := full[:cut]
	var got ResponsePacket
	err := got.ReadFrom(codec.NewReader(pre))
	if err == nil {
		ref, ok := c06RefRsp(pre)
		vapi.Check(ok, "a truncated encoding that decodes without error is itself a complete well-formed encoding")
		if ok {
			eq := vapi.And(got.IVersion == ref.IVersion, vapi.And(got.CPacketType == ref.CPacketType, vapi.And(got.IRequestId == ref.IRequestId, vapi.And(got.IMessageType == ref.IMessageType, got.IRet == ref.IRet))))
			eq = vapi.And(eq, vapi.And(got.SResultDesc == ref.SResultDesc, vapi.And(c03I8sEq(got.SBuffer, ref.SBuffer), vapi.And(c03MapEq(ref.Context, got.Context), c03MapEq(ref.Status, got.Status)))))
			vapi.Check(eq, "decoded value is exactly the one determined by the complete fields present")
		}
	}
	vapi.Reach("c06-truncated-response")
}

// the byte vector / string / map lengths of a valid encoding inflated beyond what remains
func VerifC06InflatedResponse() {
	v := ResponsePacket{IVersion: 1, IRequestId: int32(vapi.Int8("reqid")), SBuffer: c03Bytes("buf", 2), Status: map[string]string{"k": "v"}, SResultDesc: c03Str("desc", 2)}
	b := codec.NewBuffer()
	_ = v.WriteTo(b)
	full := append([]byte{}, b.ToBytes()...)
	// locate the length byte of the byte vector (after heads 1..5, SimpleList head, BYTE head): find 0x6D 0x00
	pos := -1
	for i := 0; i+1 < len(full); i++ {
		if full[i] == 0x6D && full[i+1] == 0x00 {
			pos = i + 2
			break
		}
	}
	vapi.Assume(pos > 0)
	// replace the count field (ZeroTag or BYTE n) by BYTE with an inflated value
	infl := vapi.Byte("infl")
	vapi.Assume(vapi.And(int(infl) > len(full), infl < 128))
	var mut []byte
	mut = append(mut, full[:pos]...)
	if full[pos] == 0x0C {
		mut = append(mut, 0x00, infl)
		mut = append(mut, full[pos+1:]...)
	} else {
		mut = append(mut, 0x00, infl)
		mut = append(mut, full[pos+2:]...)
	}
	var got ResponsePacket
	vapi.Check(got.ReadFrom(codec.NewReader(mut)) != nil, "a byte vector announcing more than remains is rejected")
	vapi.Reach("c06-inflated-response")
}

// a well-formed field of wire type ty (never StructEnd) at the given tag with symbolic content
func c06AnyField(ty byte, tag int) []byte {
	out := wHead(ty, tag)
	switch ty {
	case tyByte:
		out = append(out, vapi.Bytes("sp", 1)...)
	case tyShort:
		out = append(out, vapi.Bytes("sp", 2)...)
	case tyInt, tyFloat:
		out = append(out, vapi.Bytes("sp", 4)...)
	case tyLong, tyDouble:
		out = append(out, vapi.Bytes("sp", 8)...)
	case tyStr1:
		n := vapi.Len("sslen", 2)
		out = append(out, byte(n))
		out = append(out, vapi.Bytes("ss", n)...)
	case tyStr4:
		n := vapi.Len("sslen", 2)
		out = append(out, 0, 0, 0, byte(n))
		out = append(out, vapi.Bytes("ss", n)...)
	case tyMap:
		if vapi.Bool("sentry") { // one entry: string key at tag 0, string value at tag 1
			out = append(out, 0x00, 1, 0x06, 1, vapi.Byte("sk"), 0x16, 1, vapi.Byte("sv"))
		} else {
			out = append(out, 0x0C)
		}
	case tyList:
		if vapi.Bool("selem") { // one BYTE element
			out = append(out, 0x00, 1, 0x00, vapi.Byte("se"))
		} else {
			out = append(out, 0x0C)
		}
	case tyBegin:
		if vapi.Bool("smember") {
			out = append(out, 0x00, vapi.Byte("sm"))
		}
		out = append(out, 0x0B)
	case tyZero:
	case tySimple:
		n := vapi.Len("sblen", 2)
		out = append(out, 0x00)
		if n == 0 {
			out = append(out, 0x0C)
		} else {
			out = append(out, 0x00, byte(n))
		}
		out = append(out, vapi.Bytes("sb", n)...)
	}
	return out
}

// VerifC06SubstitutedResponse: a valid ResponsePacket encoding in which ONE field (any of the
// nine, required or optional, scalar or container) is replaced by a well-formed field of a wire
// type that is not admissible for its schema type: decoding must fail, never reinterpret.
func VerifC06SubstitutedResponse() {
	fields := [][]byte{
		append(wHead(tyShort, 1), vapi.Bytes("f1", 2)...),
		append(wHead(tyByte, 2), vapi.Bytes("f2", 1)...),
		append(wHead(tyInt, 3), vapi.Bytes("f3", 4)...),
		append(wHead(tyByte, 4), vapi.Bytes("f4", 1)...),
		wHead(tyZero, 5),
		append(wHead(tySimple, 6), 0x00, 0x00, 1, vapi.Byte("f6")),
		append(wHead(tyMap, 7), 0x00, 1, 0x06, 1, 'k', 0x16, 1, vapi.Byte("f7")),
		append(wHead(tyStr1, 8), 1, vapi.Byte("f8")),
		append(wHead(tyMap, 9), 0x00, 1, 0x06, 1, 'c', 0x16, 1, vapi.Byte("f9")),
	}
	// the unmodified encoding decodes (vacuity guard for the construction above)
	var whole []byte
	for _, f := range fields {
		whole = append(whole, f...)
	}
	var ok ResponsePacket
	vapi.Check(ok.ReadFrom(codec.NewReader(whole)) == nil, "the reference encoding decodes")
	// admissible wire types per member (tags 1..9)
	admissible := [][]byte{
		{tyByte, tyShort, tyZero},
		{tyByte, tyZero},
		{tyByte, tyShort, tyInt, tyZero},
		{tyByte, tyShort, tyInt, tyZero},
		{tyByte, tyShort, tyInt, tyZero},
		{tyList, tySimple},
		{tyMap},
		{tyStr1, tyStr4},
		{tyMap},
	}
	k := vapi.Choice("member", 9)
	ty := vapi.Byte("sty")
	vapi.Assume(vapi.And(ty <= 13, ty != tyEnd))
	ty = byte(vapi.Concrete(uint64(ty)))
	for _, a := range admissible[k] {
		vapi.Assume(ty != a)
	}
	var mut []byte
	for i, f := range fields {
		if i == k {
			mut = append(mut, c06AnyField(ty, k+1)...)
		} else {
			mut = append(mut, f...)
		}
	}
	var got ResponsePacket
	vapi.Check(got.ReadFrom(codec.NewReader(mut)) != nil, "a member replaced by a field of an inadmissible wire type is rejected")
	vapi.Reach("c06-substituted-response")
}
