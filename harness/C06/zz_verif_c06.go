package codec

// C06 harnesses (primitive layer): truncated, inflated and mistyped input must be rejected,
// never decoded into made-up data. The oracle is strict: a read that needs w payload bytes
// with fewer than w remaining must return an error.

import (
	"github.com/TarsCloud/TarsGo/tars/zzverif/vapi"
)

func c06Head(ty byte, tag byte) []byte {
	if tag < 15 {
		return []byte{tag<<4 | ty}
	}
	return []byte{0xF0 | ty, tag}
}

// payload width announced by a wire type for fixed-width types
func c06Width(ty byte) int {
	switch ty {
	case 0:
		return 1
	case 1:
		return 2
	case 2, 4:
		return 4
	case 3, 5:
		return 8
	}
	return 0
}

// VerifC06ShortFixed: head of a fixed-width type followed by fewer payload bytes than the
// type announces (all contents symbolic): every integer/float reader must fail.
func VerifC06ShortFixed() {
	tag := vapi.Byte("tag")
	ty := vapi.Byte("ty")
	vapi.Assume(ty <= 5)
	ty = byte(vapi.Concrete(uint64(ty)))
	w := c06Width(ty)
	have := vapi.Len("have", 7)
	vapi.Assume(have < w)
	data := append(c06Head(ty, tag), vapi.Bytes("p", have)...)
	which := vapi.Choice("reader", 7)
	var err error
	switch which {
	case 0:
		vapi.Assume(ty == 0)
		var o int8 = 5
		err = NewReader(data).ReadInt8(&o, tag, true)
		vapi.Check(err != nil || o == 5, "short int8: no made-up value")
	case 1:
		vapi.Assume(ty <= 1)
		var o int16 = 5
		err = NewReader(data).ReadInt16(&o, tag, true)
	case 2:
		vapi.Assume(ty <= 2)
		var o int32 = 5
		err = NewReader(data).ReadInt32(&o, tag, true)
	case 3:
		vapi.Assume(ty <= 3)
		var o int64 = 5
		err = NewReader(data).ReadInt64(&o, tag, true)
	case 4:
		vapi.Assume(ty == 4)
		var o float32 = 5
		err = NewReader(data).ReadFloat32(&o, tag, true)
	case 5:
		vapi.Assume(ty == 4 || ty == 5)
		var o float64 = 5
		err = NewReader(data).ReadFloat64(&o, tag, true)
	case 6:
		vapi.Assume(ty <= 3)
		var o uint32 = 5
		err = NewReader(data).ReadUint32(&o, tag, true)
	}
	vapi.Check(err != nil, "truncated fixed-width field must be rejected")
	vapi.Reach("c06-short-fixed")
}

// VerifC06ShortString: a STRING1/STRING4 field announcing more bytes than remain.
func VerifC06ShortString() {
	tag := vapi.Byte("tag")
	have := vapi.Len("have", 3)
	body := vapi.Bytes("s", have)
	var data []byte
	if vapi.Bool("long") {
		n := vapi.Uint32("n4")
		vapi.Assume(n > uint32(have))
		data = append(c06Head(7, tag), byte(n>>24), byte(n>>16), byte(n>>8), byte(n))
	} else {
		n := vapi.Byte("n1")
		vapi.Assume(int(n) > have)
		data = append(c06Head(6, tag), n)
	}
	data = append(data, body...)
	o := "init"
	err := NewReader(data).ReadString(&o, tag, true)
	vapi.Check(err != nil, "string announcing more bytes than remain must be rejected")
	vapi.Reach("c06-short-string")
}

// VerifC06ShortStringLen: STRING4 whose 4-byte length itself is cut.
func VerifC06ShortStringLen() {
	tag := vapi.Byte("tag")
	have := vapi.Len("have", 3)
	data := append(c06Head(7, tag), vapi.Bytes("l", have)...)
	o := "init"
	err := NewReader(data).ReadString(&o, tag, true)
	vapi.Check(err != nil, "string with truncated length must be rejected")
	vapi.Reach("c06-short-stringlen")
}

// VerifC06ShortSlices: ReadSliceInt8/Uint8/ReadBytes asked for more than remains.
func VerifC06ShortSlices() {
	pre := vapi.Len("pre", 2) // bytes already consumed before the bulk read
	have := vapi.Len("have", 3)
	data := append(vapi.Bytes("p", pre), vapi.Bytes("d", have)...)
	n := vapi.Int32("n")
	vapi.Assume(vapi.And(n > int32(have), n <= 8))
	r := NewReader(data)
	r.Skip(pre)
	switch vapi.Choice("reader", 3) {
	case 0:
		var o []int8
		err := r.ReadSliceInt8(&o, n, true)
		vapi.Check(err != nil, "ReadSliceInt8 past end must be rejected")
	case 1:
		var o []uint8
		err := r.ReadSliceUint8(&o, n, true)
		vapi.Check(err != nil, "ReadSliceUint8 past end must be rejected")
	case 2:
		var o []byte
		err := r.ReadBytes(&o, n, true)
		vapi.Check(err != nil, "ReadBytes past end must be rejected")
	}
	vapi.Reach("c06-short-slices")
}

// VerifC06Mistyped: a present field whose wire type is not admissible for the reader is an error.
func VerifC06Mistyped() {
	tag := vapi.Byte("tag")
	ty := vapi.Byte("ty")
	vapi.Assume(ty <= 13)
	data := append(c06Head(ty, tag), vapi.Bytes("p", 9)...)
	var err error
	switch vapi.Choice("reader", 8) {
	case 0:
		vapi.Assume(ty != 0 && ty != 12)
		var o int8
		err = NewReader(data).ReadInt8(&o, tag, true)
	case 1:
		vapi.Assume(ty > 1 && ty != 12)
		var o int16
		err = NewReader(data).ReadInt16(&o, tag, true)
	case 2:
		vapi.Assume(ty > 2 && ty != 12)
		var o int32
		err = NewReader(data).ReadInt32(&o, tag, true)
	case 3:
		vapi.Assume(ty > 3 && ty != 12)
		var o int64
		err = NewReader(data).ReadInt64(&o, tag, true)
	case 4:
		vapi.Assume(ty != 4 && ty != 12)
		var o float32
		err = NewReader(data).ReadFloat32(&o, tag, true)
	case 5:
		vapi.Assume(ty != 4 && ty != 5 && ty != 12)
		var o float64
		err = NewReader(data).ReadFloat64(&o, tag, true)
	case 6:
		vapi.Assume(ty != 6 && ty != 7)
		var o string
		err = NewReader(data).ReadString(&o, tag, true)
	case 7:
		vapi.Assume(ty != 0 && ty != 12)
		var o bool
		err = NewReader(data).ReadBool(&o, tag, true)
	}
	vapi.Check(err != nil, "inadmissible wire type must be rejected")
	vapi.Reach("c06-mistyped")
}

// VerifC06SkipPastEnd: skipping an unknown field that announces more than remains must not
// silently succeed in finding a later field (SkipTo over a truncated unknown field).
func VerifC06SkipPastEnd() {
	// unknown field at tag 1 (STRING1 announcing n bytes, only `have` present), then look for tag 2 (required)
	have := vapi.Len("have", 2)
	n := vapi.Byte("n")
	vapi.Assume(int(n) > have)
	data := append([]byte{0x16, n}, vapi.Bytes("s", have)...)
	var o int8 = 9
	err := NewReader(data).ReadInt8(&o, 2, true)
	vapi.Check(err != nil, "required field after a truncated unknown field must be an error")
	vapi.Reach("c06-skip-past-end")
}
