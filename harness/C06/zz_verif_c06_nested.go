package vtypes

// C06, nested structs: every proper prefix of a valid encoding of a struct that CONTAINS structs
// (member, optional member, vector elements - corpus struct Holder) either fails to decode or is
// itself a complete encoding, i.e. ends exactly at a boundary between top-level members after
// the required one (the boundaries are computed from the blocks the encoder writes for the
// members). In particular a nested struct cut before its StructEnd is an error, never "complete".

import (
	"github.com/TarsCloud/TarsGo/tars/protocol/codec"
	"github.com/TarsCloud/TarsGo/tars/zzverif/vapi"
)

func c06Slim(name string) Slim {
	var o Slim
	o.ResetDefault()
	switch vapi.Choice(name, 3) {
	case 1:
		o.A = symI32(name+"a", false)
	case 2:
		o.S = symStr(name+"s", 1)
	}
	return o
}

func VerifC06TruncatedNested() {
	v := Holder{O: c06Slim("o"), Oo: c06Slim("oo")}
	for i, n := 0, vapi.Len("nvo", 1); i < n; i++ {
		v.Vo = append(v.Vo, c06Slim("vo"))
	}
	full := encode(&v)
	cut := vapi.Len("cut", 24)
	vapi.Assume(cut < len(full))
	pre := full[:cut]
	// top-level member boundaries: after the required member o, and before the last member oo
	bo := codec.NewBuffer()
	_ = v.O.WriteBlock(bo, 0)
	afterO := len(bo.ToBytes())
	boo := codec.NewBuffer()
	_ = v.Oo.WriteBlock(boo, 2)
	beforeOo := len(full) - len(boo.ToBytes())
	var got Holder
	if got.ReadFrom(codec.NewReader(pre)) == nil {
		vapi.Check(cut == afterO || cut == beforeOo, "a truncated encoding that decodes without error ends exactly at a boundary between top-level members")
		vapi.Check(got.O.A == v.O.A && got.O.S == v.O.S, "the members present in full are decoded to their values")
		if cut == beforeOo {
			vapi.Check(len(got.Vo) == len(v.Vo), "the members present in full are decoded to their values")
		}
	}
	vapi.Reach("c06-truncated-nested")
}
