package vtypes

// C06, nested structs: every proper prefix of a valid encoding of a struct that CONTAINS structs
// (member, optional member, vector elements - corpus struct Holder) either fails to decode or is
// itself a complete encoding: a prefix that decodes without error must re-encode to exactly
// those bytes (the encoder is canonical). In particular a nested struct cut before its StructEnd
// is an error, never "complete".

import (
	"github.com/TarsCloud/TarsGo/tars/protocol/codec"
	"github.com/TarsCloud/TarsGo/tars/zzverif/vapi"
)

func c06Slim(name string) Slim {
	var o Slim
	o.ResetDefault()
	switch vapi.Choice(name, 3) {
	case 1:
		o.A = symI32(name+"a", false)
	case 2:
		o.S = symStr(name+"s", 1)
	}
	return o
}

func VerifC06TruncatedNested() {
	v := Holder{O: c06Slim("o"), Oo: c06Slim("oo")}
	for i, n := 0, vapi.Len("nvo", 1); i < n; i++ {
		v.Vo = append(v.Vo, c06Slim("vo"))
	}
	full := encode(&v)
	cut := vapi.Len("cut", 24)
	vapi.Assume(cut < len(full))
	pre := full[:cut]
	var got Holder
	if got.ReadFrom(codec.NewReader(pre)) == nil {
		again := encode(&got)
		vapi.Check(vapi.BytesEq(again, pre), "a truncated encoding that decodes without error is itself a complete encoding (it re-encodes to exactly itself)")
	}
	vapi.Reach("c06-truncated-nested")
}
