package parse

// C16 harness (parser, grammar-directed): the free token sequences of zz_verif_c16_parse.go reach
// only the first few tokens of a definition. Here every definition kind (struct, enum, interface,
// const, key) is entered directly (the token after its keyword) with a token script generated from
// the grammar: shapes are free choices, every integer literal (member tag, array length, enum
// value) is an arbitrary 64-bit value decided by the solver, and one arbitrary mutation (replace a
// token by any token kind, delete it, or end the input there) makes the script malformed. The
// post-parse analysis (analyzeDepend: default and type-name resolution) runs on what was parsed.
// Obligation: the front end terminates with a tree or with its own diagnostic (a panic carrying a
// string); a Go run-time error (index, nil, conversion) or an unbounded loop is a violation.

import (
	"strconv"

	"github.com/TarsCloud/TarsGo/tars/tools/tars2go/ast"
	"github.com/TarsCloud/TarsGo/tars/tools/tars2go/options"
	"github.com/TarsCloud/TarsGo/tars/tools/tars2go/token"
	"github.com/TarsCloud/TarsGo/tars/tools/tars2go/zzverif/vapi"
)

type c16Tok struct {
	tk   *token.Token
	text string
}

var (
	c16Scripted bool
	c16Script   []c16Tok
	// lean shapes (mutation harnesses): member/definition names fixed to "a", type names to "b",
	// two scalar representatives
	c16Lean bool
	// names fixed as in lean mode, types and shapes rich
	c16FixNames bool
)

// redirect target of strconv.Itoa in the engine (diagnostic text only)
func VerifC16Itoa(i int) string { return "N" }

func c16K(k token.Type) c16Tok { return c16Tok{&token.Token{T: k, Line: 1}, token.Value(k)} }

func c16Name() c16Tok { return c16NameOf(0) }

func c16NameOf(leanIdx int) c16Tok {
	n := c16Names[leanIdx]
	if !c16Lean && !c16FixNames {
		n = c16Names[vapi.Choice("name", 2)]
	}
	return c16Tok{&token.Token{T: token.Name, Line: 1, S: &token.SemInfo{S: n}}, n}
}

// an integer literal with an arbitrary 64-bit value
func c16Int() c16Tok {
	v := vapi.Int64("int")
	text := "7"
	if !vapi.Engine() {
		text = strconv.FormatInt(v, 10)
	}
	return c16Tok{&token.Token{T: token.Integer, Line: 1, S: &token.SemInfo{I: v, S: text}}, text}
}

// one representative per class the parser distinguishes: unsigned-capable integer, bool (true/false
// defaults), other number, non-number
var c16Scalars = []token.Type{token.TInt, token.TBool, token.TDouble, token.TString}

func c16Scalar() c16Tok {
	if c16Lean {
		return c16K(c16Scalars[3*vapi.Choice("scalar", 2)])
	}
	return c16K(c16Scalars[vapi.Choice("scalar", len(c16Scalars))])
}

func c16Type(depth int) []c16Tok {
	if c16Lean {
		switch vapi.Choice("typeshape", 3+2*depth) {
		case 0:
			return []c16Tok{c16Scalar()}
		case 1:
			return []c16Tok{c16K(token.Unsigned), c16K(token.TInt)}
		case 2:
			return []c16Tok{c16NameOf(1)}
		case 3:
			return []c16Tok{c16K(token.TVector), c16K(token.Shl), c16K(token.TInt), c16K(token.Shr)}
		}
		return []c16Tok{c16K(token.TMap), c16K(token.Shl), c16K(token.TString), c16K(token.Comma), c16NameOf(1), c16K(token.Shr)}
	}
	n := 3
	if depth > 0 {
		n = 5
	}
	switch vapi.Choice("typeshape", n) {
	case 0:
		return []c16Tok{c16Scalar()}
	case 1:
		return []c16Tok{c16K(token.Unsigned), c16Scalar()}
	case 2:
		return []c16Tok{c16NameOf(1)}
	case 3:
		r := []c16Tok{c16K(token.TVector), c16K(token.Shl)}
		r = append(r, c16Type(depth-1)...)
		return append(r, c16K(token.Shr))
	default:
		r := []c16Tok{c16K(token.TMap), c16K(token.Shl)}
		r = append(r, c16Type(depth-1)...)
		r = append(r, c16K(token.Comma))
		r = append(r, c16Type(depth-1)...)
		return append(r, c16K(token.Shr))
	}
}

func c16Default() c16Tok {
	if c16Lean {
		if vapi.Bool("namedefault") {
			return c16Name()
		}
		return c16Int()
	}
	switch vapi.Choice("default", 6) {
	case 0:
		return c16Int()
	case 1:
		return c16Tok{&token.Token{T: token.Float, Line: 1, S: &token.SemInfo{F: 1.5, S: "1.5"}}, "1.5"}
	case 2:
		return c16Tok{&token.Token{T: token.String, Line: 1, S: &token.SemInfo{S: "s"}}, "\"s\""}
	case 3:
		return c16K(token.True)
	case 4:
		return c16K(token.False)
	}
	return c16Name()
}

// <tag> require|optional <type> <name> ( ; | [ <int> ] ; | = <default> ; )
func c16Member(typeDepth int, tails int) []c16Tok {
	r := []c16Tok{c16Int()}
	if vapi.Bool("require") {
		r = append(r, c16K(token.Require))
	} else {
		r = append(r, c16K(token.Optional))
	}
	r = append(r, c16Type(typeDepth)...)
	r = append(r, c16Name())
	switch vapi.Choice("tail", tails) {
	case 0:
	case 1:
		r = append(r, c16K(token.SquareLeft), c16Int(), c16K(token.SquarerRight))
	case 2:
		r = append(r, c16K(token.Eq), c16Default())
	}
	return append(r, c16K(token.Semi))
}

// <name> { member* } ;
func c16StructScript(members, typeDepth int) []c16Tok {
	r := []c16Tok{c16Name(), c16K(token.BraceLeft)}
	n := vapi.Choice("members", members+1)
	for i := 0; i < n; i++ {
		if i == 0 {
			r = append(r, c16Member(typeDepth, 3)...)
		} else {
			// further members: any tag, scalar or named type, no tail (tag interplay is the point)
			r = append(r, c16Member(0, 1)...)
		}
	}
	return append(r, c16K(token.BraceRight), c16K(token.Semi))
}

// <name> { <name> [= <int>|<name>] , ... } ;
func c16EnumScript() []c16Tok {
	r := []c16Tok{c16Name(), c16K(token.BraceLeft)}
	n := vapi.Choice("members", 3)
	for i := 0; i < n; i++ {
		r = append(r, c16Name())
		switch vapi.Choice("value", 3) {
		case 1:
			r = append(r, c16K(token.Eq), c16Int())
		case 2:
			r = append(r, c16K(token.Eq), c16Name())
		}
		if i+1 < n || vapi.Bool("trailingcomma") {
			r = append(r, c16K(token.Comma))
		}
	}
	return append(r, c16K(token.BraceRight), c16K(token.Semi))
}

// <name> { (void|<type>) <name> ( [out] <type> [<name>] , ... ) ; ... } ;
func c16InterfaceScript() []c16Tok {
	r := []c16Tok{c16Name(), c16K(token.BraceLeft)}
	nf := vapi.Choice("funcs", 3)
	if c16Lean && nf > 1 {
		nf = 1
	}
	for f := 0; f < nf; f++ {
		if f > 0 || vapi.Bool("void") {
			r = append(r, c16K(token.Void))
		} else {
			r = append(r, c16Type(0)...)
		}
		r = append(r, c16Name(), c16K(token.Ptl))
		na := 0
		if f == 0 {
			na = vapi.Choice("args", 3)
		}
		for a := 0; a < na; a++ {
			if vapi.Bool("out") {
				r = append(r, c16K(token.Out))
			}
			if c16Lean && a > 0 {
				r = append(r, c16K(token.TInt), c16Name())
			} else if c16Lean {
				if vapi.Bool("named") {
					r = append(r, c16NameOf(1))
				} else {
					r = append(r, c16K(token.TInt))
				}
				r = append(r, c16Name())
			} else {
				r = append(r, c16Type(0)...)
				if vapi.Bool("argname") {
					r = append(r, c16Name())
				}
			}
			if a+1 < na {
				r = append(r, c16K(token.Comma))
			}
		}
		r = append(r, c16K(token.Ptr), c16K(token.Semi))
	}
	return append(r, c16K(token.BraceRight), c16K(token.Semi))
}

// <type> <name> = <value> ;
func c16ConstScript() []c16Tok {
	r := c16Type(1)
	r = append(r, c16Name(), c16K(token.Eq), c16Default())
	return append(r, c16K(token.Semi))
}

// [ <name> , <name> , ... ] ;
func c16KeyScript() []c16Tok {
	r := []c16Tok{c16K(token.SquareLeft), c16Name(), c16K(token.Comma)}
	n := 1 + vapi.Choice("members", 3)
	for i := 0; i < n; i++ {
		r = append(r, c16Name())
		if i+1 < n {
			r = append(r, c16K(token.Comma))
		}
	}
	return append(r, c16K(token.SquarerRight), c16K(token.Semi))
}

var c16Kinds = []token.Type{token.BraceLeft, token.BraceRight, token.Semi, token.Eq, token.Shl, token.Shr, token.Comma, token.Ptl,
	token.Ptr, token.SquareLeft, token.SquarerRight, token.Module, token.Enum, token.Struct, token.Interface, token.Require,
	token.Optional, token.Const, token.Unsigned, token.Void, token.Out, token.Key, token.True, token.False, token.TInt, token.TBool,
	token.TShort, token.TByte, token.TLong, token.TFloat, token.TDouble, token.TString, token.TVector, token.TMap, token.TArray,
	token.Name, token.String, token.Integer, token.Float}

// a token of any kind (all kinds except #include and the dummy markers)
func c16AnyToken() c16Tok {
	k := c16Kinds[vapi.Choice("anykind", len(c16Kinds))]
	switch k {
	case token.Name:
		n := c16Names[vapi.Choice("name", 2)]
		return c16Tok{&token.Token{T: token.Name, Line: 1, S: &token.SemInfo{S: n}}, n}
	case token.Integer:
		return c16Int()
	case token.String:
		return c16Tok{&token.Token{T: token.String, Line: 1, S: &token.SemInfo{S: "s"}}, "\"s\""}
	case token.Float:
		return c16Tok{&token.Token{T: token.Float, Line: 1, S: &token.SemInfo{F: 1.5, S: "1.5"}}, "1.5"}
	}
	return c16K(k)
}

// one arbitrary mutation of the script
func c16Mutate(s []c16Tok) []c16Tok {
	switch vapi.Choice("mutation", 4) {
	case 0:
		return s
	case 1: // replace one token by a token of any kind
		i := vapi.Choice("mpos", len(s))
		out := append([]c16Tok{}, s...)
		out[i] = c16AnyToken()
		return out
	case 2: // delete one token
		i := vapi.Choice("mpos", len(s))
		out := append([]c16Tok{}, s[:i]...)
		return append(out, s[i+1:]...)
	}
	// the input ends here
	return s[:vapi.Choice("mpos", len(s))]
}

const (
	c16Struct = iota
	c16Enum
	c16Interface
	c16Const
	c16Key
)

func c16RunScript(kind int, script []c16Tok, withEnum bool) {
	defer func() {
		// a panic carrying a message is tars2go's diagnostic (Gen recovers, prints it and exits);
		// anything else (a Go run-time error) is a crash and is passed on
		if r := recover(); r != nil {
			if _, isDiag := r.(string); !isDiag {
				panic(r)
			}
		}
	}()
	var data []byte
	if !vapi.Engine() {
		src := ""
		for _, t := range script {
			src += t.text + " "
		}
		data = []byte(src)
	}
	c16Scripted = true
	c16Script = script
	c16Pos = 0
	p := newParse(&options.Options{}, "verif.tars", data, nil)
	p.tarsFile.Module.Name = "m"
	if withEnum {
		// an enum and a struct already defined in the module, so that named types and named
		// defaults can resolve
		p.tarsFile.Module.Enum = append(p.tarsFile.Module.Enum, ast.Enum{Name: "e", Mb: []ast.EnumMember{{Key: "a", Type: 2}, {Key: "c", Type: 2}}})
		p.tarsFile.Module.Struct = append(p.tarsFile.Module.Struct, ast.Struct{Name: "b"})
	}
	switch kind {
	case c16Struct:
		p.parseStruct()
	case c16Enum:
		p.parseEnum()
	case c16Interface:
		p.parseInterface()
	case c16Const:
		p.parseConst()
	case c16Key:
		p.parseHashKey()
	}
	p.analyzeDepend()
}

// well-formed struct shapes with arbitrary integer literals (tags, array lengths, defaults):
// first member of every scalar class / unsigned / named type with every tail, second member with
// any tag
func VerifC16Struct() {
	c16RunScript(c16Struct, c16StructScript(2, 0), true)
	vapi.Reach("c16-struct")
}

// every type expression of nesting depth <= 1 as a member type, resolved or not
func VerifC16Types() {
	r := []c16Tok{c16Name(), c16K(token.BraceLeft), c16Int(), c16K(token.Optional)}
	r = append(r, c16Type(1)...)
	r = append(r, c16Name(), c16K(token.Semi), c16K(token.BraceRight), c16K(token.Semi))
	c16RunScript(c16Struct, r, vapi.Bool("withenum"))
	vapi.Reach("c16-types")
}

// well-formed interface shapes: return and parameter types of every class, out parameters,
// unnamed parameters, a second function
func VerifC16Interface() {
	c16FixNames = true
	c16RunScript(c16Interface, c16InterfaceScript(), true)
	vapi.Reach("c16-interface")
}

// lean one-member struct shapes with one arbitrary mutation
func VerifC16StructMut() {
	c16Lean = true
	c16RunScript(c16Struct, c16Mutate(c16StructScript(1, 1)), true)
	vapi.Reach("c16-struct-mut")
}

func VerifC16EnumMut() {
	c16Lean = true
	c16RunScript(c16Enum, c16Mutate(c16EnumScript()), false)
	vapi.Reach("c16-enum-mut")
}

func VerifC16InterfaceMut() {
	c16Lean = true
	c16RunScript(c16Interface, c16Mutate(c16InterfaceScript()), true)
	vapi.Reach("c16-interface-mut")
}

func VerifC16ConstKeyMut() {
	c16Lean = true
	if vapi.Bool("key") {
		c16RunScript(c16Key, c16Mutate(c16KeyScript()), false)
	} else {
		c16RunScript(c16Const, c16Mutate(c16ConstScript()), false)
	}
	vapi.Reach("c16-constkey-mut")
}
