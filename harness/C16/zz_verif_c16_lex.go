package lexer

// C16 harness (lexer): over arbitrary source bytes every NextToken call terminates, and once
// Eof has been returned it is returned forever (the contract the parser harness assumes).

import (
	"github.com/TarsCloud/TarsGo/tars/tools/tars2go/token"
	"github.com/TarsCloud/TarsGo/tars/tools/tars2go/zzverif/vapi"
)

func c16Lex(maxBytes int) {
	n := vapi.Len("n", maxBytes)
	src := vapi.Bytes("src", n)
	defer func() { _ = recover() }() // lexErr panics are diagnostics
	ls := NewLexState("verif.tars", src)
	eof := false
	for i := 0; i < n+2; i++ {
		tk := ls.NextToken()
		if eof {
			vapi.Check(tk.T == token.Eof, "Eof is returned forever once reached")
		}
		if tk.T == token.Eof {
			eof = true
		}
	}
	vapi.Check(eof, "the lexer reaches Eof after at most one token per source byte")
}

func VerifC16Lex()     { c16Lex(4); vapi.Reach("c16-lex") }
func VerifC16LexLong() { c16Lex(5); vapi.Reach("c16-lex-long") }
