package lexer

// C16 harness (lexer): over arbitrary source bytes every NextToken call terminates, and once
// Eof has been returned it is returned forever (the contract the parser harness assumes).

import (
	"github.com/TarsCloud/TarsGo/tars/tools/tars2go/token"
	"github.com/TarsCloud/TarsGo/tars/tools/tars2go/zzverif/vapi"
)

// alphabet of the longer variant: one representative per lexical class
var c16Alphabet = []byte{0, ' ', '\n', '/', '*', '"', '#', 'a', '0', ':', '{', 'x'}

func c16Lex(maxBytes int, restricted bool) {
	n := vapi.Len("n", maxBytes)
	var src []byte
	if restricted {
		for i := 0; i < n; i++ {
			src = append(src, c16Alphabet[vapi.Choice("cls", len(c16Alphabet))])
		}
	} else {
		src = vapi.Bytes("src", n)
	}
	defer func() { // lexErr panics (strings) are diagnostics; a Go run-time error is a crash
		if r := recover(); r != nil {
			if _, isDiag := r.(string); !isDiag {
				panic(r)
			}
		}
	}()
	ls := NewLexState("verif.tars", src)
	eof := false
	for i := 0; i < n+2; i++ {
		tk := ls.NextToken()
		if eof {
			vapi.Check(tk.T == token.Eof, "Eof is returned forever once reached")
		}
		if tk.T == token.Eof {
			eof = true
		}
	}
	vapi.Check(eof, "the lexer reaches Eof after at most one token per source byte")
}

func VerifC16Lex()     { c16Lex(4, false); vapi.Reach("c16-lex") }
func VerifC16LexLong() { c16Lex(6, true); vapi.Reach("c16-lex-long") }
