package parse

// C16 harness (parser): for every token sequence the parser terminates - with a grammar tree
// or with a diagnostic (panic with a message, which tars2go prints) - and never hangs.
// In the engine the lexer is replaced by a scripted token source (redirect of
// (*lexer.LexState).NextToken); natively the same sequence is rendered to source text and
// run through the real lexer and parser.

import (
	"strconv"

	"github.com/TarsCloud/TarsGo/tars/tools/tars2go/lexer"
	"github.com/TarsCloud/TarsGo/tars/tools/tars2go/options"
	"github.com/TarsCloud/TarsGo/tars/tools/tars2go/token"
	"github.com/TarsCloud/TarsGo/tars/tools/tars2go/zzverif/vapi"
)

var c16Pos int

var (
	c16Max int
	c16Src string
)

// scripted lexer: up to c16Max symbolic tokens drawn on demand, then Eof forever
func VerifC16NextToken(ls *lexer.LexState) *token.Token {
	if c16Scripted {
		if c16Pos < len(c16Script) {
			c16Pos++
			return c16Script[c16Pos-1].tk
		}
		return &token.Token{T: token.Eof, Line: 1}
	}
	if c16Pos >= c16Max || !vapi.Bool("more") {
		c16Pos = c16Max
		return &token.Token{T: token.Eof, Line: 1}
	}
	c16Pos++
	tk, _ := c16Token()
	return tk
}

var c16Names = []string{"a", "b"}

func c16Token() (*token.Token, string) {
	kind := token.Type(vapi.Concrete(uint64(vapi.Byte("kind"))))
	vapi.Assume(kind >= token.BraceLeft && kind <= token.Float)
	vapi.Assume(kind != token.Include && kind != token.DummyKeywordBegin && kind != token.DummyKeywordEnd && kind != token.DummyTypeBegin && kind != token.DummyTypeEnd)
	tk := &token.Token{T: kind, Line: 1}
	text := token.Value(kind)
	switch kind {
	case token.Name:
		n := c16Names[vapi.Choice("name", 2)]
		tk.S = &token.SemInfo{S: n}
		text = n
	case token.Integer:
		v := int64(vapi.Choice("int", 3))
		tk.S = &token.SemInfo{I: v, S: strconv.FormatInt(v, 10)}
		text = tk.S.S
	case token.String:
		tk.S = &token.SemInfo{S: "s"}
		text = "\"s\""
	case token.Float:
		tk.S = &token.SemInfo{F: 1.5, S: "1.5"}
		text = "1.5"
	}
	return tk, text
}

func c16Parse(maxTokens int) {
	c16Max = maxTokens
	c16Pos = 0
	c16Scripted = false
	opt := &options.Options{}
	defer func() {
		// a panic carrying a message is tars2go's diagnostic (Gen recovers, prints it and exits);
		// anything else (a Go run-time error) is a crash and is passed on
		if r := recover(); r != nil {
			if _, isDiag := r.(string); !isDiag {
				panic(r)
			}
		}
	}()
	var data []byte
	if !vapi.Engine() {
		// native replay: render the recorded token sequence to source text for the real lexer
		src := ""
		for i := 0; i < maxTokens && vapi.Has("more") && vapi.Bool("more"); i++ {
			_, text := c16Token()
			src += text + " "
		}
		data = []byte(src)
	}
	p := newParse(opt, "verif.tars", data, nil)
	p.parse()
}

func VerifC16Parse()     { c16Parse(6); vapi.Reach("c16-parse") }
func VerifC16ParseLong() { c16Parse(8); vapi.Reach("c16-parse-long") }
