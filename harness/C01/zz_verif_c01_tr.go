package transport

// C01, transport side: what the implementation sees is exactly what ITS caller passed - so every
// request must be dispatched with its own per-request context (request/response context and
// status maps, packet type ... live in the `current` value of that context). The real server
// receive path tcpHandler.recv -> handleConn -> getConnContext -> protocol.Invoke runs over a
// stream of two or three requests on ONE connection (any segmentation); the protocol stub plays
// Protocol.Invoke + implementation: it must find the per-request state empty on entry, and then
// fills it (as SetRequestContext / SetResponseContext / SetPacketTypeFromContext do).

import (
	"context"

	"github.com/TarsCloud/TarsGo/tars/protocol"
	"github.com/TarsCloud/TarsGo/tars/util/current"
	"github.com/TarsCloud/TarsGo/tars/zzverif/vapi"
)

type c01TrProto struct {
	calls int
	leaks int
	ctxs  []context.Context
}

func (p *c01TrProto) Invoke(ctx context.Context, pkg []byte) []byte {
	c07Mu.Lock()
	defer c07Mu.Unlock()
	p.calls++
	if m, ok := current.GetResponseContext(ctx); ok && len(m) > 0 {
		p.leaks++
	}
	if m, ok := current.GetRequestContext(ctx); ok && len(m) > 0 {
		p.leaks++
	}
	if m, ok := current.GetResponseStatus(ctx); ok && len(m) > 0 {
		p.leaks++
	}
	for _, o := range p.ctxs {
		if o == ctx {
			p.leaks++
		}
	}
	p.ctxs = append(p.ctxs, ctx)
	current.SetRequestContext(ctx, map[string]string{"who": string(pkg[4:5])})
	current.SetResponseContext(ctx, map[string]string{"from": string(pkg[4:5])})
	current.SetResponseStatus(ctx, map[string]string{"st": string(pkg[4:5])})
	current.SetPacketTypeFromContext(ctx, 0)
	return nil
}
func (p *c01TrProto) ParsePackage(buff []byte) (int, int) { return protocol.TarsRequest(buff) }
func (p *c01TrProto) InvokeTimeout(pkg []byte) []byte     { return nil }
func (p *c01TrProto) GetCloseMsg() []byte                 { return nil }
func (p *c01TrProto) DoClose(ctx context.Context)         {}

func VerifC01PerRequestContext() {
	n := 2 + vapi.Choice("requests", 2)
	var stream []byte
	for i := 0; i < n; i++ {
		stream = append(stream, 0, 0, 0, 5, byte('a'+i))
	}
	protocol.SetMaxPackageLength(16)
	conn := &c07Conn{stream: stream}
	cfg := &TarsServerConf{Proto: "tcp", Address: "10.0.0.2:1"}
	p := &c01TrProto{}
	ts := &TarsServer{protocol: p, config: cfg}
	h := &tcpHandler{config: cfg, server: ts}
	h.recv(&connInfo{conn: conn})
	vapi.Quiesce()
	c07Mu.Lock()
	calls, leaks := p.calls, p.leaks
	c07Mu.Unlock()
	vapi.Check(calls == n, "every request on the connection is dispatched once")
	vapi.Check(leaks == 0, "every request is dispatched with its own empty per-request context (nothing of another request is visible)")
	vapi.Reach("c01-per-request-context")
}
