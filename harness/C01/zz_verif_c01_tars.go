package tars

// C01 bridge (package tars side): builds a real ServantProxy + AdapterProxy and a real server
// Protocol that share one application object, and replaces the sockets by a hand-off:
// (*transport.TarsClient).Send is redirected to VerifC01Send, which runs the server-side
// Protocol.Invoke on the request bytes in a new goroutine and, unless the request is one-way,
// delivers the reply bytes through the real AdapterProxy.Recv.

import (
	"context"
	"encoding/binary"
	"fmt"
	"io"
	"net"
	"runtime"
	"sync/atomic"
	"time"

	"github.com/TarsCloud/TarsGo/tars/zzverif/vapi"

	"github.com/TarsCloud/TarsGo/tars/protocol"
	"github.com/TarsCloud/TarsGo/tars/protocol/res/basef"
	"github.com/TarsCloud/TarsGo/tars/protocol/res/endpointf"
	"github.com/TarsCloud/TarsGo/tars/transport"
	"github.com/TarsCloud/TarsGo/tars/util/current"
	"github.com/TarsCloud/TarsGo/tars/util/endpoint"
)

type verifC01Mgr struct{ adp *AdapterProxy }

func (m *verifC01Mgr) SelectAdapterProxy(msg *Message) (*AdapterProxy, bool) { return m.adp, false }
func (m *verifC01Mgr) GetAllEndpoint() []*endpoint.Endpoint                  { return nil }
func (m *verifC01Mgr) preInvoke()                                            {}
func (m *verifC01Mgr) postInvoke()                                           {}
func (m *verifC01Mgr) addAliveEp(ep endpoint.Endpoint)                       {}

var (
	verifC01Server *Protocol
	verifC01Adp    *AdapterProxy
	verifC01App    *application
	// VerifC01Replies counts reply packets handed to the client side; VerifC01Requests the requests on the wire.
	VerifC01Replies  int32
	VerifC01Requests int32
)

// VerifC01Setup wires a proxy and a server protocol for the given dispatcher/implementation.
func VerifC01Setup(disp dispatch, imp interface{}) *ServantProxy {
	verifC01App = &application{allFilters: &filters{}}
	comm := &Communicator{Client: &clientConfig{ObjQueueMax: 100, ClientReadTimeout: 100 * time.Millisecond}, app: verifC01App}
	pt := &endpointf.EndpointF{Host: "10.0.0.1", Port: 1, Istcp: 1}
	conf := &transport.TarsClientConf{Proto: "tcp", ReadTimeout: 100 * time.Millisecond}
	adp := &AdapterProxy{point: pt, conf: conf, comm: comm, status: true}
	addr := "10.0.0.1:1"
	if !vapi.Engine() {
		// native replay: the same hand-off over a real loopback TCP connection
		addr = verifC01NativeServer()
		pt.Host, pt.Port = "127.0.0.1", 0
	}
	adp.tarsClient = transport.NewTarsClient(addr, adp, conf)
	s := &ServantProxy{name: "obj", comm: comm, proto: &protocol.TarsProtocol{}, timeout: 3000, version: basef.TARSVERSION}
	s.manager = &verifC01Mgr{adp}
	adp.servantProxy = s
	verifC01Adp = adp
	verifC01Server = NewTarsProtocol(disp, imp, true)
	verifC01Server.app = verifC01App
	VerifC01Replies, VerifC01Requests = 0, 0
	return s
}

// VerifC01Send is the redirect target of (*transport.TarsClient).Send.
func VerifC01Send(tc *transport.TarsClient, req []byte) error {
	atomic.AddInt32(&VerifC01Requests, 1)
	pkg := make([]byte, len(req))
	copy(pkg, req)
	go func() {
		ctx := current.ContextWithTarsCurrent(context.Background())
		current.SetRecvPkgTsFromContext(ctx, time.Now().UnixNano()/1e6)
		rsp := verifC01Server.Invoke(ctx, pkg)
		if pt, ok := current.GetPacketTypeFromContext(ctx); ok && pt == basef.TARSONEWAY {
			return // the transport writes no reply for a one-way request
		}
		atomic.AddInt32(&VerifC01Replies, 1)
		verifC01Adp.Recv(rsp)
	}()
	return nil
}

// filter registration on the shared application (the real registration methods)
func VerifC01ClientFilter(f ClientFilter)                   { verifC01App.allFilters.registerClientFilter(f) }
func VerifC01PreClientFilter(f ClientFilter)                { verifC01App.allFilters.registerPreClientFilter(f) }
func VerifC01PostClientFilter(f ClientFilter)               { verifC01App.allFilters.registerPostClientFilter(f) }
func VerifC01ClientMiddleware(m ClientFilterMiddleware)     { verifC01App.allFilters.UseClientFilterMiddleware(m) }
func VerifC01ServerFilter(f ServerFilter)                   { verifC01App.allFilters.registerServerFilter(f) }
func VerifC01PreServerFilter(f ServerFilter)                { verifC01App.allFilters.registerPreServerFilter(f) }
func VerifC01PostServerFilter(f ServerFilter)               { verifC01App.allFilters.registerPostServerFilter(f) }
func VerifC01ServerMiddleware(m ServerFilterMiddleware)     { verifC01App.allFilters.UseServerFilterMiddleware(m) }

// verifC01NativeServer serves framed requests on a loopback listener with the server Protocol.
func verifC01NativeServer() string {
	ln, err := net.Listen("tcp", "127.0.0.1:0")
	if err != nil {
		panic(err)
	}
	go func() {
		for {
			conn, err := ln.Accept()
			if err != nil {
				return
			}
			go func(conn net.Conn) {
				defer conn.Close()
				for {
					hdr := make([]byte, 4)
					if _, err := io.ReadFull(conn, hdr); err != nil {
						return
					}
					n := int(binary.BigEndian.Uint32(hdr))
					if n < 4 || n > 1<<20 {
						return
					}
					pkg := make([]byte, n)
					copy(pkg, hdr)
					if _, err := io.ReadFull(conn, pkg[4:]); err != nil {
						return
					}
					atomic.AddInt32(&VerifC01Requests, 1)
					// like the real tcpHandler: one goroutine per request, replies written as they complete
					go func(pkg []byte) {
						ctx := current.ContextWithTarsCurrent(context.Background())
						current.SetRecvPkgTsFromContext(ctx, time.Now().UnixNano()/1e6)
						rsp := verifC01Server.Invoke(ctx, pkg)
						if pt, ok := current.GetPacketTypeFromContext(ctx); ok && pt == basef.TARSONEWAY {
							return
						}
						atomic.AddInt32(&VerifC01Replies, 1)
						runtime.Gosched() // (the real handler does more work between building and writing the reply)
						if _, err := conn.Write(rsp); err != nil {
							fmt.Println("verif: native server write:", err)
						}
					}(pkg)
				}
			}(conn)
		}
	}()
	return ln.Addr().String()
}
