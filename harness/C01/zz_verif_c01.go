package vtypes

// C01 harness: a call through the generated proxy to the generated dispatcher returns exactly
// what the implementation produced, and the implementation receives exactly what the caller
// passed; one-way calls deliver once and produce no reply; pass-through filters run once, in
// registration order, without changing the outcome.
// Real code on the path: generated XWithContext proxy -> ServantProxy.TarsInvoke -> doInvoke ->
// AdapterProxy.Send -> RequestPack -> (hand-off) -> Protocol.Invoke -> filters -> generated
// Dispatch -> implementation -> rsp2Byte -> (hand-off) -> AdapterProxy.Recv -> ResponseUnpack ->
// doInvoke error mapping -> proxy decoding and context/status copy-back.

import (
	"context"
	"errors"
	"sync"
	"sync/atomic"
	"time"

	"github.com/TarsCloud/TarsGo/tars"
	"github.com/TarsCloud/TarsGo/tars/protocol/res/requestf"
	"github.com/TarsCloud/TarsGo/tars/util/current"
	"github.com/TarsCloud/TarsGo/tars/zzverif/vapi"
)

// ---- implementation (records what it sees, returns symbolic results) ----
type c01Imp struct {
	calls int32
	// seen
	a      int32
	b      int64
	s      string
	raw    []int8
	in     Inner
	m      map[string]string
	c      Color
	flag   bool
	reqCtx map[string]string
	reqSt  map[string]string
	// to return
	ret32  int32
	sum    int64
	rets   string
	os     string
	oraw   []int8
	retIn  Inner
	om     map[string]string
	ov     []int32
	retC   Color
	oflag  bool
	rspCtx map[string]string
	rspSt  map[string]string
	mode   int // 0 ok, 1 plain error, 2 tars.Error
	code   int32
	msg    string
}

func (p *c01Imp) seeCtx(ctx context.Context) error {
	atomic.AddInt32(&p.calls, 1)
	p.reqCtx, _ = current.GetRequestContext(ctx)
	p.reqSt, _ = current.GetRequestStatus(ctx)
	if p.rspCtx != nil {
		current.SetResponseContext(ctx, p.rspCtx)
	}
	if p.rspSt != nil {
		current.SetResponseStatus(ctx, p.rspSt)
	}
	switch p.mode {
	case 1:
		return errors.New(p.msg)
	case 2:
		return &tars.Error{Code: p.code, Message: p.msg}
	}
	return nil
}

func (p *c01Imp) Add(ctx context.Context, a int32, b int64, sum *int64) (int32, error) {
	p.a, p.b = a, b
	*sum = p.sum
	return p.ret32, p.seeCtx(ctx)
}
func (p *c01Imp) Echo(ctx context.Context, s string, raw []int8, os *string, oraw *[]int8) (string, error) {
	p.s, p.raw = s, raw
	*os, *oraw = p.os, p.oraw
	return p.rets, p.seeCtx(ctx)
}
func (p *c01Imp) Ping(ctx context.Context) error { return p.seeCtx(ctx) }
func (p *c01Imp) Swap(ctx context.Context, i *Inner, m map[string]string, om *map[string]string, ov *[]int32) (Inner, error) {
	p.in, p.m = *i, m
	*om, *ov = p.om, p.ov
	return p.retIn, p.seeCtx(ctx)
}
func (p *c01Imp) Paint(ctx context.Context, c Color, flag bool, oflag *bool) (Color, error) {
	p.c, p.flag = c, flag
	*oflag = p.oflag
	return p.retC, p.seeCtx(ctx)
}

// wide-set rotation: only the selected value ranges over its full type, the others over the one-byte class
func c01I32(name string, wide bool) int32 {
	v := vapi.Int32(name)
	if !wide {
		vapi.Assume(vapi.And(v >= -128, v <= 127))
	}
	return v
}
func c01I64(name string, wide bool) int64 {
	v := vapi.Int64(name)
	if !wide {
		vapi.Assume(vapi.And(v >= -128, v <= 127))
	}
	return v
}

func c01Map(name string) map[string]string {
	if !vapi.Bool(name + "has") {
		return nil
	}
	return map[string]string{"k" + vapi.String(name+"k", 1): vapi.String(name+"v", 1)}
}

func c01MapEq(a, b map[string]string) bool {
	ok := len(a) == len(b)
	for k, v := range a {
		g, has := b[k]
		ok = vapi.And(ok, vapi.And(has, g == v))
	}
	return ok
}

func c01I8Eq(a, b []int8) bool {
	ok := len(a) == len(b)
	for i := range a {
		if i < len(b) {
			ok = vapi.And(ok, a[i] == b[i])
		}
	}
	return ok
}

func c01Setup(imp *c01Imp) *Svc {
	obj := NewSvc()
	sp := tars.VerifC01Setup(obj, imp)
	obj.SetServant(sp)
	return obj
}

func c01Outcome(imp *c01Imp) {
	imp.mode = vapi.Choice("mode", 3)
	imp.code = vapi.Int32("code")
	imp.msg = "e" + vapi.String("msg", 1)
	// the framework documents code 0 as success and reserves code 1 for plain errors
	vapi.Assume(vapi.And(imp.code != 0, imp.code != 1))
}

func c01CheckErr(imp *c01Imp, err error) bool {
	switch imp.mode {
	case 0:
		vapi.Check(err == nil, "a successful implementation yields a successful call")
		return err == nil
	case 1:
		vapi.Check(err != nil, "an implementation error fails the call")
		if err != nil {
			vapi.Check(err.Error() == imp.msg, "the caller sees the implementation's error message")
			vapi.Check(tars.GetErrorCode(err) == 1, "a plain error arrives with code 1")
		}
	case 2:
		vapi.Check(err != nil, "an implementation *tars.Error fails the call")
		if err != nil {
			vapi.Check(err.Error() == imp.msg, "the caller sees the implementation's error message")
			vapi.Check(tars.GetErrorCode(err) == imp.code, "the caller sees the implementation's error code")
		}
	}
	return false
}

// ---------- Add: scalar in/out/return, request and response context/status ----------
func VerifC01Add() {
	// group 0..4: one wide scalar each; 5: request context/status maps; 6: response context/status maps
	grp := vapi.Choice("group", 7)
	imp := &c01Imp{ret32: c01I32("ret", grp == 3), sum: c01I64("sumout", grp == 4)}
	if grp == 6 {
		imp.rspCtx, imp.rspSt = c01Map("rspctx"), c01Map("rspst")
	}
	c01Outcome(imp)
	obj := c01Setup(imp)
	a, b, sum := c01I32("a", grp == 0), c01I64("b", grp == 1), c01I64("sumin", grp == 2)
	var reqCtx, reqSt map[string]string
	if grp == 5 {
		reqCtx, reqSt = c01Map("reqctx"), c01Map("reqst")
	}
	wantCtx, wantSt := map[string]string{}, map[string]string{}
	for k, v := range reqCtx {
		wantCtx[k] = v
	}
	for k, v := range reqSt {
		wantSt[k] = v
	}
	if reqCtx == nil {
		reqCtx = map[string]string{}
	}
	if reqSt == nil {
		reqSt = map[string]string{}
	}
	ret, err := obj.AddWithContext(context.Background(), a, b, &sum, reqCtx, reqSt)
	vapi.Check(atomic.LoadInt32(&imp.calls) == 1, "the implementation runs exactly once")
	vapi.Check(vapi.And(imp.a == a, imp.b == b), "the implementation receives exactly the arguments")
	vapi.Check(c01MapEq(wantCtx, imp.reqCtx), "the implementation receives exactly the request context")
	vapi.Check(c01MapEq(wantSt, imp.reqSt), "the implementation receives exactly the request status")
	if c01CheckErr(imp, err) {
		vapi.Check(vapi.And(ret == imp.ret32, sum == imp.sum), "the caller receives exactly the return value and out parameter")
		vapi.Check(c01MapEq(imp.rspCtx, reqCtx), "the caller receives exactly the response context")
		vapi.Check(c01MapEq(imp.rspSt, reqSt), "the caller receives exactly the response status")
	}
	vapi.Check(atomic.LoadInt32(&tars.VerifC01Requests) == 1, "one request on the wire")
	vapi.Reach("c01-add")
}

// ---------- Echo: strings and byte vectors ----------
func VerifC01Echo() {
	imp := &c01Imp{rets: vapi.String("rets", vapi.Len("retslen", 2)), os: vapi.String("os", vapi.Len("oslen", 2))}
	for i, n := 0, vapi.Len("orawn", 2); i < n; i++ {
		imp.oraw = append(imp.oraw, vapi.Int8("oraw"))
	}
	obj := c01Setup(imp)
	s := vapi.String("s", vapi.Len("slen", 2))
	var raw []int8
	for i, n := 0, vapi.Len("rawn", 2); i < n; i++ {
		raw = append(raw, vapi.Int8("raw"))
	}
	var os string
	var oraw []int8
	ret, err := obj.EchoWithContext(context.Background(), s, raw, &os, &oraw)
	vapi.Check(err == nil, "echo succeeds")
	vapi.Check(atomic.LoadInt32(&imp.calls) == 1, "the implementation runs exactly once")
	vapi.Check(vapi.And(imp.s == s, c01I8Eq(imp.raw, raw)), "the implementation receives exactly the string and byte vector")
	vapi.Check(vapi.And(ret == imp.rets, vapi.And(os == imp.os, c01I8Eq(oraw, imp.oraw))), "the caller receives exactly the return string and out parameters")
	vapi.Reach("c01-echo")
}

// ---------- Swap: struct, map, out map, out vector; Paint: enum, bool ----------
func VerifC01Swap() {
	grp := vapi.Choice("group", 3) // 0: argument side symbolic, 1: result struct/map, 2: out vector
	imp := &c01Imp{retIn: Inner{A: c01I32("reta", grp == 1), S: "r"}}
	if grp == 1 {
		imp.retIn.S = vapi.String("rets", vapi.Len("retslen", 1))
		imp.om = c01Map("om")
	}
	if grp == 2 {
		for i, n := 0, vapi.Len("ovn", 2); i < n; i++ {
			imp.ov = append(imp.ov, c01I32("ov", i == 0))
		}
	}
	obj := c01Setup(imp)
	in := Inner{A: c01I32("ina", grp == 0), S: "i"}
	var m map[string]string
	if grp == 0 {
		in.S = vapi.String("ins", vapi.Len("inslen", 1))
		m = c01Map("m")
	}
	var om map[string]string
	var ov []int32
	ret, err := obj.SwapWithContext(context.Background(), &in, m, &om, &ov)
	vapi.Check(err == nil, "swap succeeds")
	vapi.Check(atomic.LoadInt32(&imp.calls) == 1, "the implementation runs exactly once")
	vapi.Check(vapi.And(imp.in.A == in.A, imp.in.S == in.S), "the implementation receives exactly the struct argument")
	vapi.Check(c01MapEq(m, imp.m), "the implementation receives exactly the map argument")
	vapi.Check(vapi.And(ret.A == imp.retIn.A, ret.S == imp.retIn.S), "the caller receives exactly the returned struct")
	vapi.Check(c01MapEq(imp.om, om), "the caller receives exactly the out map")
	okv := len(ov) == len(imp.ov)
	for i := range ov {
		if i < len(imp.ov) {
			okv = vapi.And(okv, ov[i] == imp.ov[i])
		}
	}
	vapi.Check(okv, "the caller receives exactly the out vector")
	vapi.Reach("c01-swap")
}

func VerifC01Paint() {
	imp := &c01Imp{retC: Color(vapi.Int32("retc")), oflag: vapi.Bool("oflag")}
	obj := c01Setup(imp)
	c, flag := Color(vapi.Int32("c")), vapi.Bool("flag")
	var oflag bool
	ret, err := obj.PaintWithContext(context.Background(), c, flag, &oflag)
	vapi.Check(err == nil, "paint succeeds")
	vapi.Check(vapi.And(imp.c == c, imp.flag == flag), "the implementation receives exactly the enum and bool arguments")
	vapi.Check(vapi.And(ret == imp.retC, oflag == imp.oflag), "the caller receives exactly the returned enum and out bool")
	vapi.Reach("c01-paint")
}

// ---------- one-way: delivered exactly once, no reply ----------
func VerifC01OneWay() {
	imp := &c01Imp{ret32: 5}
	obj := c01Setup(imp)
	a, b := vapi.Int32("a"), vapi.Int64("b")
	var sum int64
	var err error
	wantCtx, wantSt := map[string]string{}, map[string]string{}
	switch vapi.Choice("maps", 3) {
	case 0:
		_, err = obj.AddOneWayWithContext(context.Background(), a, b, &sum)
	case 1:
		reqCtx := c01Map("reqctx")
		for k, v := range reqCtx {
			wantCtx[k] = v
		}
		_, err = obj.AddOneWayWithContext(context.Background(), a, b, &sum, reqCtx)
	case 2:
		reqCtx, reqSt := c01Map("reqctx"), c01Map("reqst")
		for k, v := range reqCtx {
			wantCtx[k] = v
		}
		for k, v := range reqSt {
			wantSt[k] = v
		}
		_, err = obj.AddOneWayWithContext(context.Background(), a, b, &sum, reqCtx, reqSt)
	}
	vapi.Check(err == nil, "a one-way call returns without error")
	vapi.Quiesce()
	if !vapi.Engine() {
		time.Sleep(100 * time.Millisecond)
	}
	vapi.Check(atomic.LoadInt32(&imp.calls) == 1, "a one-way call delivers its arguments exactly once")
	vapi.Check(vapi.And(imp.a == a, imp.b == b), "a one-way call delivers exactly its arguments")
	vapi.Check(c01MapEq(wantCtx, imp.reqCtx), "a one-way call delivers exactly the request context")
	vapi.Check(c01MapEq(wantSt, imp.reqSt), "a one-way call delivers exactly the request status")
	vapi.Check(atomic.LoadInt32(&tars.VerifC01Replies) == 0, "a one-way call produces no reply")
	vapi.Reach("c01-oneway")
}

// ---------- filters: once, in registration order, outcome unchanged ----------
var c01Trace []string

func c01CF(name string) tars.ClientFilter {
	return func(ctx context.Context, msg *tars.Message, invoke tars.Invoke, timeout time.Duration) error {
		c01Trace = append(c01Trace, name)
		return invoke(ctx, msg, timeout)
	}
}
func c01ObserverCF(name string) tars.ClientFilter { // pre/post filters observe, they do not invoke
	return func(ctx context.Context, msg *tars.Message, invoke tars.Invoke, timeout time.Duration) error {
		c01Trace = append(c01Trace, name)
		return nil
	}
}
func c01SF(name string) tars.ServerFilter {
	return func(ctx context.Context, d tars.Dispatch, f interface{}, req *requestf.RequestPacket, resp *requestf.ResponsePacket, withContext bool) error {
		c01Trace = append(c01Trace, name)
		return d(ctx, f, req, resp, withContext)
	}
}
func c01ObserverSF(name string) tars.ServerFilter {
	return func(ctx context.Context, d tars.Dispatch, f interface{}, req *requestf.RequestPacket, resp *requestf.ResponsePacket, withContext bool) error {
		c01Trace = append(c01Trace, name)
		return nil
	}
}
func c01CM(name string) tars.ClientFilterMiddleware {
	return func(next tars.ClientFilter) tars.ClientFilter {
		return func(ctx context.Context, msg *tars.Message, invoke tars.Invoke, timeout time.Duration) error {
			c01Trace = append(c01Trace, name)
			return next(ctx, msg, invoke, timeout)
		}
	}
}
func c01SM(name string) tars.ServerFilterMiddleware {
	return func(next tars.ServerFilter) tars.ServerFilter {
		return func(ctx context.Context, d tars.Dispatch, f interface{}, req *requestf.RequestPacket, resp *requestf.ResponsePacket, withContext bool) error {
			c01Trace = append(c01Trace, name)
			return next(ctx, d, f, req, resp, withContext)
		}
	}
}

func VerifC01Filters() {
	imp := &c01Imp{ret32: c01I32("ret", false), sum: c01I64("sumout", false)}
	c01Outcome(imp)
	obj := c01Setup(imp)
	c01Trace = nil
	cfg := vapi.Choice("filters", 3)
	var want []string
	switch cfg {
	case 0: // legacy single filters
		tars.VerifC01ClientFilter(c01CF("cf"))
		tars.VerifC01ServerFilter(c01SF("sf"))
		want = []string{"cf", "sf"}
	case 1: // pre/post filters (observers), two each on both sides
		tars.VerifC01PreClientFilter(c01ObserverCF("cpre1"))
		tars.VerifC01PreClientFilter(c01ObserverCF("cpre2"))
		tars.VerifC01PostClientFilter(c01ObserverCF("cpost1"))
		tars.VerifC01PostClientFilter(c01ObserverCF("cpost2"))
		tars.VerifC01PreServerFilter(c01ObserverSF("spre1"))
		tars.VerifC01PreServerFilter(c01ObserverSF("spre2"))
		tars.VerifC01PostServerFilter(c01ObserverSF("spost1"))
		tars.VerifC01PostServerFilter(c01ObserverSF("spost2"))
		want = []string{"cpre1", "cpre2", "spre1", "spre2", "spost1", "spost2", "cpost1", "cpost2"}
	case 2: // middleware chains, first registered outermost
		tars.VerifC01ClientMiddleware(c01CM("cm1"))
		tars.VerifC01ClientMiddleware(c01CM("cm2"))
		tars.VerifC01ServerMiddleware(c01SM("sm1"))
		tars.VerifC01ServerMiddleware(c01SM("sm2"))
		want = []string{"cm1", "cm2", "sm1", "sm2"}
	}
	a, b, sum := c01I32("a", false), c01I64("b", false), c01I64("sumin", false)
	ret, err := obj.AddWithContext(context.Background(), a, b, &sum)
	vapi.Check(atomic.LoadInt32(&imp.calls) == 1, "filters: the implementation runs exactly once")
	vapi.Check(vapi.And(imp.a == a, imp.b == b), "filters: the implementation receives exactly the arguments")
	if c01CheckErr(imp, err) {
		vapi.Check(vapi.And(ret == imp.ret32, sum == imp.sum), "filters: the outcome is unchanged")
	}
	ok := len(c01Trace) == len(want)
	for i := range want {
		if i < len(c01Trace) && c01Trace[i] != want[i] {
			ok = false
		}
	}
	vapi.Check(ok, "filters: each pass-through filter ran exactly once, in registration order")
	vapi.Reach("c01-filters")
}

// ---------- two concurrent callers sharing one proxy ----------
func VerifC01TwoCallers() {
	imp := &c01TwoImp{}
	obj := NewSvc()
	sp := tars.VerifC01Setup(obj, imp)
	obj.SetServant(sp)
	a1, a2 := c01I32("a1", true), c01I32("a2", false)
	var r1, r2 int32
	var s1, s2 int64
	var e1, e2 error
	var done int32
	go func() {
		r2, e2 = obj.AddWithContext(context.Background(), a2, 2, &s2)
		atomic.StoreInt32(&done, 1)
	}()
	r1, e1 = obj.AddWithContext(context.Background(), a1, 1, &s1)
	for atomic.LoadInt32(&done) == 0 {
		time.Sleep(10 * time.Millisecond)
	}
	if !vapi.Engine() {
		// native replay: interference between calls in flight is a race in real time; after the two
		// recorded calls the same proxy is hammered by 16 concurrent callers (25 calls each, distinct
		// arguments) and any error or foreign result counts against all three obligations below
		var bad int32
		var wg sync.WaitGroup
		for w := 0; w < 16; w++ {
			wg.Add(1)
			go func(w int) {
				defer wg.Done()
				for k := 0; k < 25 && atomic.LoadInt32(&bad) == 0; k++ {
					a := int32(w*1000 + k)
					var sum int64
					r, err := obj.AddWithContext(context.Background(), a, int64(w), &sum)
					if err != nil || r != a || sum != int64(w)*1000+int64(a) {
						atomic.StoreInt32(&bad, 1)
					}
				}
			}(w)
		}
		wg.Wait()
		if atomic.LoadInt32(&bad) == 1 {
			e1 = errors.New("concurrent callers interfered (native stress phase)")
			r1, r2 = a1+1, a2+1
		}
	}
	vapi.Check(e1 == nil && e2 == nil, "concurrent callers: both calls succeed")
	// the implementation answers ret = a, sum = b*1000 + a: each caller must get the answer to ITS call
	vapi.Check(vapi.And(r1 == a1, s1 == 1000+int64(a1)), "concurrent callers: caller 1 receives the result of its own call")
	vapi.Check(vapi.And(r2 == a2, s2 == 2000+int64(a2)), "concurrent callers: caller 2 receives the result of its own call")
	if vapi.Engine() {
		vapi.Check(atomic.LoadInt32(&imp.calls) == 2, "concurrent callers: the implementation runs once per call")
	}
	vapi.Reach("c01-twocallers")
}

type c01TwoImp struct{ calls int32 }

func (p *c01TwoImp) Add(ctx context.Context, a int32, b int64, sum *int64) (int32, error) {
	atomic.AddInt32(&p.calls, 1)
	*sum = b*1000 + int64(a)
	return a, nil
}
func (p *c01TwoImp) Echo(ctx context.Context, s string, raw []int8, os *string, oraw *[]int8) (string, error) {
	return "", nil
}
func (p *c01TwoImp) Ping(ctx context.Context) error { return nil }
func (p *c01TwoImp) Swap(ctx context.Context, i *Inner, m map[string]string, om *map[string]string, ov *[]int32) (Inner, error) {
	return Inner{}, nil
}
func (p *c01TwoImp) Paint(ctx context.Context, c Color, flag bool, oflag *bool) (Color, error) {
	return 0, nil
}
