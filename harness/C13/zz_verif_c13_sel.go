package selector

// C13 (a,d): BuildStaticWeightList never crashes for any weights and produces the
// weight-proportional cycle.

import (
	"github.com/TarsCloud/TarsGo/tars/util/endpoint"
	"github.com/TarsCloud/TarsGo/tars/zzverif/vapi"
)

var c13Hosts = []string{"10.0.0.1", "10.0.0.2", "10.0.0.3"}

// c13SmallWeight: a symbolic weight in -4..4 (zero, negative and positive values; the bound
// keeps the symbolic cycle construction short).
func c13SmallWeight() int32 {
	w := vapi.Int8("w")
	vapi.Assume(vapi.And(w >= -4, w <= 4))
	return int32(w)
}

// VerifC13WeightListSmall: up to 3 static weights in -4..4, at least one of them <= 0 (the
// region where the ratio arithmetic degenerates): no panic, indices in range.
func VerifC13WeightListSmall() {
	n := 1 + vapi.Choice("n", 3)
	eps := make([]endpoint.Endpoint, n)
	nonpos := false
	for i := range eps {
		w := c13SmallWeight()
		nonpos = vapi.Or(nonpos, w <= 0)
		eps[i] = endpoint.Endpoint{Host: c13Hosts[i], Port: 1, Weight: w, WeightType: 1}
	}
	vapi.Assume(nonpos)
	l := BuildStaticWeightList(eps)
	for _, idx := range l {
		vapi.Check(vapi.And(idx >= 0, idx < n), "weight list index in range")
	}
	vapi.Reach("c13-weightlist-small")
}

// VerifC13WeightListOne: a single endpoint with any weight in -128..127.
func VerifC13WeightListOne() {
	eps := []endpoint.Endpoint{{Host: c13Hosts[0], Port: 1, Weight: int32(vapi.Int8("w")), WeightType: 1}}
	l := BuildStaticWeightList(eps)
	for _, idx := range l {
		vapi.Check(idx == 0, "weight list index in range")
	}
	vapi.Reach("c13-weightlist-one")
}

// VerifC13WeightListCycle: static weights 1..4: one full cycle contains endpoint i exactly
// max(1, floor(W_i*R/W_max)) times, R = min(100, max(10, floor(W_max/W_min))).
func VerifC13WeightListCycle() {
	n := 1 + vapi.Choice("n", 3)
	eps := make([]endpoint.Endpoint, n)
	wmax, wmin := int32(0), int32(1000)
	for i := range eps {
		w := int32(vapi.Concrete(uint64(1 + vapi.Choice("w", 4))))
		eps[i] = endpoint.Endpoint{Host: c13Hosts[i], Port: 1, Weight: w, WeightType: 1}
		if w > wmax {
			wmax = w
		}
		if w < wmin {
			wmin = w
		}
	}
	l := BuildStaticWeightList(eps)
	r := wmax / wmin
	if r < 10 {
		r = 10
	}
	if r > 100 {
		r = 100
	}
	total := 0
	for i := range eps {
		want := int(eps[i].Weight * r / wmax)
		if want < 1 {
			want = 1
		}
		got := 0
		for _, idx := range l {
			if idx == i {
				got++
			}
		}
		vapi.Check(got == want, "weighted cycle: endpoint count proportional to weight")
		total += want
	}
	vapi.Check(len(l) == total, "weighted cycle length")
	vapi.Reach("c13-weightlist-cycle")
}
