package selector

// C13 (a,d): BuildStaticWeightList never crashes for any weights and produces the
// weight-proportional cycle.

import (
	"github.com/TarsCloud/TarsGo/tars/util/endpoint"
	"github.com/TarsCloud/TarsGo/tars/zzverif/vapi"
)

var c13Hosts = []string{"10.0.0.1", "10.0.0.2", "10.0.0.3"}

// c13SmallWeight: a symbolic weight in -4..4 (zero, negative and positive values; the bound
// keeps the symbolic cycle construction short).
func c13SmallWeight() int32 {
	w := vapi.Int8("w")
	vapi.Assume(vapi.And(w >= -4, w <= 4))
	return int32(w)
}

// VerifC13WeightListSmall: up to 3 static weights in -4..4, at least one of them <= 0 (the
// region where the ratio arithmetic degenerates): no panic, indices in range.
func VerifC13WeightListSmall() {
	n := 1 + vapi.Choice("n", 3)
	eps := make([]endpoint.Endpoint, n)
	nonpos := false
	for i := range eps {
		w := c13SmallWeight()
		nonpos = vapi.Or(nonpos, w <= 0)
		eps[i] = endpoint.Endpoint{Host: c13Hosts[i], Port: 1, Weight: w, WeightType: 1}
	}
	vapi.Assume(nonpos)
	l := BuildStaticWeightList(eps)
	for _, idx := range l {
		vapi.Check(vapi.And(idx >= 0, idx < n), "weight list index in range")
	}
	vapi.Reach("c13-weightlist-small")
}

// VerifC13WeightListOne: a single endpoint with any weight in -128..127.
func VerifC13WeightListOne() {
	eps := []endpoint.Endpoint{{Host: c13Hosts[0], Port: 1, Weight: int32(vapi.Int8("w")), WeightType: 1}}
	l := BuildStaticWeightList(eps)
	for _, idx := range l {
		vapi.Check(idx == 0, "weight list index in range")
	}
	vapi.Reach("c13-weightlist-one")
}

// VerifC13WeightListCycle: static weights 1..4: one full cycle contains endpoint i exactly
// max(1, floor(W_i*R/W_max)) times, R = min(100, max(10, floor(W_max/W_min))).
func VerifC13WeightListCycle() {
	n := 1 + vapi.Choice("n", 3)
	eps := make([]endpoint.Endpoint, n)
	wmax, wmin := int32(0), int32(1000)
	for i := range eps {
		w := int32(vapi.Concrete(uint64(1 + vapi.Choice("w", 4))))
		eps[i] = endpoint.Endpoint{Host: c13Hosts[i], Port: 1, Weight: w, WeightType: 1}
		if w > wmax {
			wmax = w
		}
		if w < wmin {
			wmin = w
		}
	}
	l := BuildStaticWeightList(eps)
	r := wmax / wmin
	if r < 10 {
		r = 10
	}
	if r > 100 {
		r = 100
	}
	total := 0
	for i := range eps {
		want := int(eps[i].Weight * r / wmax)
		if want < 1 {
			want = 1
		}
		got := 0
		for _, idx := range l {
			if idx == i {
				got++
			}
		}
		vapi.Check(got == want, "weighted cycle: endpoint count proportional to weight")
		total += want
	}
	vapi.Check(len(l) == total, "weighted cycle length")
	vapi.Reach("c13-weightlist-cycle")
}

// c13Formula: the property's cycle formula over symbolic weights.
func c13Formula(w, wmax, wmin int32) (want int, r int32) {
	r = wmax / wmin
	if r < 10 {
		r = 10
	}
	if r > 100 {
		r = 100
	}
	want = int(w * r / wmax)
	if want < 1 {
		want = 1
	}
	return
}

// VerifC13WeightListRatio: two endpoints with ANY static weights in 1..255 in either order
// (so every ratio W_max/W_min from 1 to 255, both sides of the R clamps 10 and 100): the cycle
// contains each endpoint exactly max(1, floor(W_i*R/W_max)) times.
func VerifC13WeightListRatio() {
	w0, w1 := int32(vapi.Uint8("w0")), int32(vapi.Uint8("w1"))
	vapi.Assume(vapi.And(w0 >= 1, w1 >= 1))
	eps := []endpoint.Endpoint{
		{Host: c13Hosts[0], Port: 1, Weight: w0, WeightType: 1},
		{Host: c13Hosts[1], Port: 1, Weight: w1, WeightType: 1},
	}
	wmax, wmin := w0, w1
	if w1 > w0 {
		wmax, wmin = w1, w0
	}
	l := BuildStaticWeightList(eps)
	want0, _ := c13Formula(w0, wmax, wmin)
	want1, _ := c13Formula(w1, wmax, wmin)
	got0, got1 := 0, 0
	for _, idx := range l {
		vapi.Check(vapi.And(idx >= 0, idx < 2), "weight list index in range")
		if idx == 0 {
			got0++
		} else {
			got1++
		}
	}
	vapi.Check(got0 == want0, "weighted cycle: endpoint count proportional to weight")
	vapi.Check(got1 == want1, "weighted cycle: endpoint count proportional to weight")
	vapi.Reach("c13-weightlist-ratio")
}

// VerifC13WeightListRatio3: three endpoints with any static weights in 1..15 in any order.
func VerifC13WeightListRatio3() {
	var w [3]int32
	eps := make([]endpoint.Endpoint, 3)
	wmax, wmin := int32(0), int32(1000)
	for i := range eps {
		x := vapi.Uint8("w")
		vapi.Assume(vapi.And(x >= 1, x <= 15))
		w[i] = int32(x)
		eps[i] = endpoint.Endpoint{Host: c13Hosts[i], Port: 1, Weight: w[i], WeightType: 1}
		wmax = int32(vapi.Ite(w[i] > wmax, uint64(w[i]), uint64(wmax)))
		wmin = int32(vapi.Ite(w[i] < wmin, uint64(w[i]), uint64(wmin)))
	}
	l := BuildStaticWeightList(eps)
	var got [3]int
	for _, idx := range l {
		vapi.Check(vapi.And(idx >= 0, idx < 3), "weight list index in range")
		got[idx]++
	}
	for i := range eps {
		want, _ := c13Formula(w[i], wmax, wmin)
		vapi.Check(got[i] == want, "weighted cycle: endpoint count proportional to weight")
	}
	vapi.Reach("c13-weightlist-ratio3")
}
