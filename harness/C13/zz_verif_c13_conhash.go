package consistenthash

// C13 for the consistent-hash selector: selections running concurrently with an update never
// crash and return a member of the set before or after the update (all schedules within the
// delay bound; 8 virtual nodes per endpoint, ring rules themselves are C14's subject).

import (
	"github.com/TarsCloud/TarsGo/tars/util/endpoint"
	"github.com/TarsCloud/TarsGo/tars/zzverif/vapi"
)

func VerifC13ConHashConcurrent() {
	c := New(false, KetamaHash)
	c.replicates = 8
	c.Refresh([]endpoint.Endpoint{c14Ep(0), c14Ep(1)})
	done := make(chan struct{}, 1)
	upd := vapi.Choice("update", 3)
	go func() {
		switch upd {
		case 0:
			_ = c.Remove(c14Ep(1))
		case 1:
			_ = c.Add(c14Ep(2))
		case 2:
			c.Refresh([]endpoint.Endpoint{c14Ep(2)})
		}
		done <- struct{}{}
	}()
	for k := 0; k < 2; k++ {
		ep, err := c.Select(&c14Msg{vapi.Uint32("code")})
		vapi.Check(err == nil, "concurrent: the set is never empty here, so Select succeeds")
		if err == nil {
			i := c14HostIndex(ep.Host)
			if upd == 0 {
				vapi.Check(i == 0 || i == 1, "concurrent: member of the old or the new set")
			} else {
				vapi.Check(i >= 0 && i <= 2, "concurrent: member of the old or the new set")
			}
		}
	}
	<-done
	ep, err := c.Select(&c14Msg{vapi.Uint32("code")})
	vapi.Check(err == nil, "concurrent: select after the update")
	i := c14HostIndex(ep.Host)
	switch upd {
	case 0:
		vapi.Check(i == 0, "concurrent: after Remove only the remaining endpoint is selected")
	case 1:
		vapi.Check(i >= 0 && i <= 2, "concurrent: after Add a member is selected")
	case 2:
		vapi.Check(i == 2, "concurrent: after Refresh only the new endpoint is selected")
	}
	vapi.Reach("c13-conhash-concurrent")
}
