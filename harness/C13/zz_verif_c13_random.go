package random

// C13 harnesses for the random selector: members only after any history, errors only when
// empty, duplicate Add / missing Remove rejected without effect, crash-freedom for any weights.

import (
	"github.com/TarsCloud/TarsGo/tars/selector"
	"github.com/TarsCloud/TarsGo/tars/util/endpoint"
	"github.com/TarsCloud/TarsGo/tars/zzverif/vapi"
)

var c13Hosts = []string{"10.0.0.1", "10.0.0.2", "10.0.0.3"}

type c13Msg struct{ code uint32 }

func (m *c13Msg) HashCode() uint32            { return m.code }
func (m *c13Msg) HashType() selector.HashType { return selector.ModHash }
func (m *c13Msg) IsHash() bool                { return true }

func c13Ep(i int) endpoint.Endpoint {
	return endpoint.Endpoint{Host: c13Hosts[i], Port: int32(1000 + i), Weight: 100}
}

// the same endpoint (identified by host) as a caller may name it in Add/Remove: the fields that
// are not part of its identity (timeout, weight) may differ from the installed copy
func c13EpAs(i int) endpoint.Endpoint {
	ep := c13Ep(i)
	if vapi.Bool("othercopy") {
		ep.Timeout = 2500
		ep.Weight = 7
	}
	return ep
}

var c13Lists [8][]endpoint.Endpoint

// the caller's list for a subset, built once per run and passed to every Refresh of that subset
func c13List(mask int) []endpoint.Endpoint {
	if c13Lists[mask] == nil {
		eps := make([]endpoint.Endpoint, 0, 3)
		for i := 0; i < 3; i++ {
			if mask&(1<<uint(i)) != 0 {
				eps = append(eps, c13Ep(i))
			}
		}
		c13Lists[mask] = eps
	}
	return c13Lists[mask]
}

// the selector never changes a list the caller handed to Refresh
func c13ListsIntact() bool {
	ok := true
	for mask, l := range c13Lists {
		if l == nil {
			continue
		}
		k := 0
		for i := 0; i < 3; i++ {
			if mask&(1<<uint(i)) != 0 {
				if k >= len(l) || l[k].Host != c13Hosts[i] {
					ok = false
				}
				k++
			}
		}
		if k != len(l) {
			ok = false
		}
	}
	return ok
}

func c13HostIndex(h string) int {
	for i, x := range c13Hosts {
		if x == h {
			return i
		}
	}
	return -1
}

func c13History(s *Random, steps int) [3]bool {
	var member [3]bool
	for st := 0; st < steps; st++ {
		switch vapi.Choice("op", 4) {
		case 0: // Refresh with any subset
			mask := vapi.Choice("mask", 8)
			for i := 0; i < 3; i++ {
				member[i] = mask&(1<<uint(i)) != 0
			}
			// the caller keeps its lists: refreshing twice with the same subset passes the SAME
			// slice again (as endpointManager does with its registry lists)
			s.Refresh(c13List(mask))
		case 1:
			i := vapi.Choice("host", 3)
			err := s.Add(c13EpAs(i))
			vapi.Check((err != nil) == member[i], "Add fails exactly for an existing member")
			member[i] = true
		case 2:
			i := vapi.Choice("host", 3)
			err := s.Remove(c13EpAs(i))
			vapi.Check((err != nil) == !member[i], "Remove fails exactly for a non-member")
			member[i] = false
		case 3:
			c13Select(s, member)
		}
	}
	vapi.Check(c13ListsIntact(), "the selector never modifies a list the caller passed to Refresh")
	return member
}

func c13Select(s *Random, member [3]bool) {
	ep, err := s.Select(&c13Msg{code: vapi.Uint32("code")})
	empty := !member[0] && !member[1] && !member[2]
	vapi.Check((err != nil) == empty, "Select fails exactly when the set is empty")
	if err == nil {
		i := c13HostIndex(ep.Host)
		vapi.Check(i >= 0 && member[i], "Select returns a member of the current set")
	}
}

func VerifC13RandomHistory() {
	s := New(false)
	m := c13History(s, 3)
	c13Select(s, m)
	vapi.Reach("c13-random-history")
}

func VerifC13RandomHistoryLong() {
	s := New(false)
	m := c13History(s, 4)
	c13Select(s, m)
	vapi.Reach("c13-random-history-long")
}

// static weights in -4..4, at least one of them zero or negative: never a panic; Select errs only when empty
func VerifC13RandomAnyWeights() {
	s := New(true)
	n := vapi.Choice("n", 4)
	var eps []endpoint.Endpoint
	nonpos := false
	for i := 0; i < n; i++ {
		e := c13Ep(i)
		w8 := vapi.Int8("w")
		vapi.Assume(vapi.And(w8 >= -4, w8 <= 4))
		e.Weight = int32(w8)
		e.WeightType = 1
		nonpos = vapi.Or(nonpos, e.Weight <= 0)
		eps = append(eps, e)
	}
	vapi.Assume(vapi.Or(nonpos, n == 0))
	s.Refresh(eps)
	ep, err := s.Select(&c13Msg{code: vapi.Uint32("code")})
	vapi.Check((err != nil) == (n == 0), "weights: Select fails exactly when the set is empty")
	if err == nil {
		i := c13HostIndex(ep.Host)
		vapi.Check(i >= 0 && i < n, "weights: Select returns a member")
	}
	vapi.Reach("c13-random-anyweights")
}

// selections running concurrently with an update: no panic, every result is a member of the
// set before or after the update (all schedules within the delay bound)
func VerifC13RandomConcurrent() {
	s := New(false)
	s.Refresh([]endpoint.Endpoint{c13Ep(0), c13Ep(1)})
	done := make(chan struct{}, 1)
	upd := vapi.Choice("update", 4)
	go func() {
		switch upd {
		case 0:
			_ = s.Remove(c13Ep(1))
		case 1:
			_ = s.Add(c13Ep(2))
		case 2:
			s.Refresh([]endpoint.Endpoint{c13Ep(2)})
		case 3: // the set is emptied while selections run
			s.Refresh(nil)
		}
		done <- struct{}{}
	}()
	for k := 0; k < 2; k++ {
		ep, err := s.Select(&c13Msg{code: vapi.Uint32("code")})
		if upd != 3 {
			vapi.Check(err == nil, "concurrent: the set is never empty here, so Select succeeds")
		}
		if err == nil {
			i := c13HostIndex(ep.Host)
			switch upd {
			case 0:
				vapi.Check(i == 0 || i == 1, "concurrent: member of the old or the new set")
			case 1:
				vapi.Check(i >= 0 && i <= 2, "concurrent: member of the old or the new set")
			case 2:
				vapi.Check(i >= 0 && i <= 2, "concurrent: member of the old or the new set")
			case 3: // emptied meanwhile: an error, or a member of the old set - never a crash
				vapi.Check(i == 0 || i == 1, "concurrent: member of the old or the new set")
			}
		}
	}
	<-done
	ep, err := s.Select(&c13Msg{code: vapi.Uint32("code")})
	if upd == 3 {
		vapi.Check(err != nil, "concurrent: after the set was emptied Select fails with an error")
		vapi.Reach("c13-random-concurrent")
		return
	}
	vapi.Check(err == nil, "concurrent: select after the update")
	i := c13HostIndex(ep.Host)
	switch upd {
	case 0:
		vapi.Check(i == 0, "concurrent: after Remove only the remaining member is served")
	case 2:
		vapi.Check(i == 2, "concurrent: after Refresh only the new set is served")
	}
	vapi.Reach("c13-random-concurrent")
}
