//go:build verif

package rogger

import (
	"os"
	"time"
)

// native replay only: widen the window between flushLog's two selects
func init() {
	if os.Getenv("VERIF_YIELD") != "" {
		VerifYield = func() { time.Sleep(2 * time.Millisecond) }
	}
}
