//go:build verif

package rogger

import (
	"os"
	"time"
)

// native replay only: widen the window between flushLog's two selects - on about half of the
// passages, so that repeated replays see both the widened and the plain timing
func init() {
	if os.Getenv("VERIF_YIELD") != "" {
		VerifYield = func() {
			if time.Now().UnixNano()/1000%2 == 0 {
				time.Sleep(2 * time.Millisecond)
			}
		}
	}
}
