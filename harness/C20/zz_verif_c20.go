package rogger

// C20 harness: every entry whose logging call returned before the flush was requested is handed
// to its writer exactly once before FlushLogger returns, in per-goroutine order, each as one write.

import (
	"sync/atomic"
	"time"

	"github.com/TarsCloud/TarsGo/tars/zzverif/vapi"
)

type c20Writer struct {
	got   [][]byte
	calls int32
}

func (w *c20Writer) Write(v []byte) {
	// a real writer does I/O: a scheduling point between taking the entry from the queue and
	// having written it (an atomic operation in the engine, a short sleep natively)
	atomic.AddInt32(&w.calls, 1)
	if !vapi.Engine() {
		time.Sleep(2 * time.Millisecond)
	}
	c := make([]byte, len(v))
	copy(c, v)
	w.got = append(w.got, c)
}
func (w *c20Writer) NeedPrefix() bool { return false }

func c20Flush(maxG, maxE int) {
	w := &c20Writer{}
	lg := &Logger{name: "verif", writer: w}
	g := 1 + vapi.Choice("G", maxG)
	n := 1 + vapi.Choice("E", maxE)
	done := make(chan int, 4)
	for id := 1; id < g; id++ {
		id := id
		go func() {
			for s := 0; s < n; s++ {
				lg.WriteLog([]byte{byte(id), byte(s)})
			}
			done <- id
		}()
	}
	for s := 0; s < n; s++ {
		lg.WriteLog([]byte{0, byte(s)})
	}
	for id := 1; id < g; id++ {
		<-done
	}
	// every WriteLog above has returned: now flush
	if !vapi.Engine() {
		// native replay: let the background writer pick up the first entry, so that the flush
		// arrives while it is writing (the window the engine explores by scheduling)
		time.Sleep(500 * time.Microsecond)
	}
	t0, n0 := time.Now(), vapi.NowNs()
	FlushLogger()
	waited := time.Since(t0)
	if vapi.Engine() {
		waited = time.Duration(vapi.NowNs() - n0)
	}
	flushed := asyncDone.Err() != nil
	if !flushed {
		// FlushLogger may give up, but only after its timeout: then nothing is promised
		vapi.Check(waited >= waitFlushTimeout, "FlushLogger returns only when the background writer is done or its timeout has passed")
		vapi.Reach("c20-flush-timeout")
		return
	}
	var next [3]int
	for _, e := range w.got {
		vapi.Check(len(e) == 2, "each entry is one undivided write")
		if len(e) == 2 && int(e[0]) < 3 {
			vapi.Check(int(e[1]) == next[e[0]], "entries of one goroutine reach the writer in order, each once")
			next[e[0]]++
		}
	}
	for id := 0; id < g; id++ {
		vapi.Check(next[id] == n, "every entry logged before the flush is written before FlushLogger returns")
	}
	vapi.Reach("c20-flush")
}

// VerifC20SmallQueue: the same obligations with a queue of capacity 1, so that the queue-full
// path of the logging calls is reached (the real capacity is 10000). The queue variable is
// replaced before the background writer looks at it (natively the writer is parked on the old
// queue: one dummy entry through the old queue makes it come round and pick up the new one).
type c20Null struct{}

func (c20Null) Write(v []byte)   {}
func (c20Null) NeedPrefix() bool { return false }

func VerifC20SmallQueue() {
	old := logQueue
	logQueue = make(chan *logValue, 1)
	if !vapi.Engine() {
		old <- &logValue{value: []byte("dummy"), writer: c20Null{}}
		time.Sleep(5 * time.Millisecond)
	}
	c20Flush(2, 3)
}

func VerifC20Flush()     { c20Flush(2, 2) }
func VerifC20FlushLong() { c20Flush(3, 2) }
