package conf

// C17 harness: the config parser is complete and exact, or returns an error.
// The XML tokenizer (encoding/xml, not encodable) is replaced in the engine by a scripted
// token source (redirect of xml.NewDecoder / (*xml.Decoder).Token to the functions below);
// natively the same document is rendered to text and parsed by the real encoding/xml.
// Everything after the tokenizer (line splitting, trimming, '#', '=', duplicates, node stack,
// path analysis, getters) is the real code.

import (
	"encoding/xml"
	"errors"
	"io"

	"github.com/TarsCloud/TarsGo/tars/zzverif/vapi"
)

type c17Tok struct {
	kind int // 0 start, 1 end, 2 chardata, 3 tokenizer error
	name string
	data []byte
}

var (
	c17Script []c17Tok
	c17Pos    int
)

func VerifC17NewDecoder(r io.Reader) *xml.Decoder { return &xml.Decoder{} }

func VerifC17Token(d *xml.Decoder) (xml.Token, error) {
	if c17Pos >= len(c17Script) {
		return nil, io.EOF
	}
	t := c17Script[c17Pos]
	c17Pos++
	switch t.kind {
	case 0:
		return xml.StartElement{Name: xml.Name{Local: t.name}}, nil
	case 1:
		return xml.EndElement{Name: xml.Name{Local: t.name}}, nil
	case 2:
		return xml.CharData(t.data), nil
	}
	return nil, errors.New("XML syntax error")
}

// render the script as document text for the native run
func c17Render() []byte {
	var out []byte
	for _, t := range c17Script {
		switch t.kind {
		case 0:
			out = append(out, ("<" + t.name + ">")...)
		case 1:
			out = append(out, ("</" + t.name + ">")...)
		case 2:
			out = append(out, t.data...)
		case 3:
			out = append(out, "&bad"...)
		}
	}
	return out
}

// ---- reference model ----

type c17KV struct{ k, v []byte }

func c17IsBlank(c byte) bool { return vapi.Or(c == ' ', vapi.Or(c == '\t', c == '\n')) }

func c17Trim(b []byte) []byte {
	i, j := 0, len(b)
	for i < j && c17IsBlank(b[i]) {
		i++
	}
	for j > i && c17IsBlank(b[j-1]) {
		j--
	}
	return b[i:j]
}

// reference reading of one line: (isEntry, key, value, keptAsLine)
func c17RefLine(raw []byte) (bool, []byte, []byte, bool) {
	line := c17Trim(raw)
	if len(line) == 0 || line[0] == '#' {
		return false, nil, nil, false
	}
	eq := -1
	for i, c := range line {
		if c == '=' {
			eq = i
			break
		}
	}
	var k, v []byte
	if eq < 0 {
		k = c17Trim(line)
	} else {
		k = c17Trim(line[:eq])
		v = c17Trim(line[eq+1:])
	}
	if len(k) == 0 {
		return false, nil, nil, true
	}
	return true, k, v, true
}

// symbolic line of up to max bytes from the config alphabet (no XML-significant bytes, no '/')
func c17Line(max int) []byte {
	n := vapi.Len("linelen", max)
	b := vapi.Bytes("line", n)
	for _, c := range b {
		ok := vapi.Or(vapi.InRange(c, 'a', 'c'), vapi.InRange(c, '0', '1'))
		ok = vapi.Or(ok, vapi.Or(c == '=', vapi.Or(c == '#', vapi.Or(c == ' ', c == '\t'))))
		vapi.Assume(ok)
	}
	return b
}

func c17Join(lines [][]byte) []byte {
	out := []byte{'\n'}
	for _, l := range lines {
		out = append(out, l...)
		out = append(out, '\n')
	}
	return out
}

// checks every entry, the key listing and the line listing of one domain against the reference
func c17CheckDomain(c *Conf, path string, lines [][]byte, subdomains []string) {
	var kvs []c17KV
	var kept [][]byte
	for _, raw := range lines {
		isEntry, k, v, keep := c17RefLine(raw)
		if keep {
			kept = append(kept, c17Trim(raw))
		}
		if !isEntry {
			continue
		}
		// validity: a key does not collide with a sub-domain name of the same domain
		for _, sd := range subdomains {
			vapi.Assume(string(k) != sd)
		}
		dup := false
		for i := range kvs {
			if string(kvs[i].k) == string(k) {
				kvs[i].v = v // later duplicates win
				dup = true
			}
		}
		if !dup {
			kvs = append(kvs, c17KV{k, v})
		}
	}
	for _, kv := range kvs {
		got := c.GetStringWithDef(path+"<"+string(kv.k)+">", "\x00missing")
		vapi.Check(got == string(kv.v), "every key is retrievable with exactly its value")
		// a key is not a domain: a path that continues below it names nothing
		if len(kv.k) > 0 {
			below := c.GetStringWithDef(path+"/"+string(kv.k)+"<"+string(kv.k)+">", "\x00missing")
			vapi.Check(below == "\x00missing", "a path that continues below a key yields the supplied default")
			vapi.Check(c.GetIntWithDef(path+"/"+string(kv.k)+"/zz<zz>", -77) == -77, "a path that continues below a key yields the supplied default")
		}
	}
	keys := c.GetDomainKey(path)
	vapi.Check(len(keys) == len(kvs), "key listing contains exactly the written keys")
	m := c.GetMap(path)
	vapi.Check(len(m) == len(kvs), "map listing contains exactly the written keys")
	ls := c.GetDomainLine(path)
	vapi.Check(len(ls) == len(kept), "line listing contains exactly the written lines")
	for i := range kept {
		if i < len(ls) {
			vapi.Check(ls[i] == string(kept[i]), "line listing is exact and in order")
		}
	}
	ds := c.GetDomain(path)
	vapi.Check(len(ds) == len(subdomains), "sub-domain listing contains exactly the written domains")
	vapi.Check(c.GetStringWithDef(path+"<zz>", "dflt") == "dflt", "absent key yields the supplied default")
}

func c17Parse(c *Conf) error {
	c17Pos = 0
	return c.InitFromBytes(c17Render())
}

// VerifC17Lines: one domain with up to two symbolic lines.
func c17Lines(max1, max2 int) {
	l1 := c17Line(max1)
	lines := [][]byte{l1}
	if max2 > 0 {
		lines = append(lines, c17Line(max2))
	}
	c17Script = []c17Tok{{0, "a", nil}, {2, "", c17Join(lines)}, {1, "a", nil}}
	c := New()
	err := c17Parse(c)
	vapi.Check(err == nil, "well-formed document parses")
	c17CheckDomain(c, "/a", lines, nil)
}

func VerifC17Lines()     { c17Lines(4, 2); vapi.Reach("c17-lines") }
func VerifC17LinesLong() { c17Lines(5, 3); vapi.Reach("c17-lines-long") }

// VerifC17Shapes: nesting, sibling domains, repeated domains, and the failure shapes
// (mismatched end tag, tokenizer error, unexpected end of input): complete or an error.
func VerifC17Shapes() {
	l1 := c17Line(3)
	l2 := c17Line(3)
	d1, d2 := [][]byte{l1}, [][]byte{l2}
	c := New()
	switch vapi.Choice("shape", 7) {
	case 0: // nested
		c17Script = []c17Tok{{0, "a", nil}, {2, "", c17Join(d1)}, {0, "b", nil}, {2, "", c17Join(d2)}, {1, "b", nil}, {1, "a", nil}}
		vapi.Check(c17Parse(c) == nil, "nested document parses")
		c17CheckDomain(c, "/a", d1, []string{"b"})
		c17CheckDomain(c, "/a/b", d2, nil)
	case 1: // siblings
		c17Script = []c17Tok{{0, "a", nil}, {2, "", c17Join(d1)}, {1, "a", nil}, {2, "", []byte("\n")}, {0, "b", nil}, {2, "", c17Join(d2)}, {1, "b", nil}}
		vapi.Check(c17Parse(c) == nil, "sibling domains parse")
		c17CheckDomain(c, "/a", d1, nil)
		c17CheckDomain(c, "/b", d2, nil)
	case 2: // the same domain written twice: entries accumulate, later duplicates win
		c17Script = []c17Tok{{0, "a", nil}, {2, "", c17Join(d1)}, {1, "a", nil}, {0, "a", nil}, {2, "", c17Join(d2)}, {1, "a", nil}}
		vapi.Check(c17Parse(c) == nil, "repeated domain parses")
		c17CheckDomain(c, "/a", [][]byte{l1, l2}, nil)
	case 3: // mismatched end tag
		c17Script = []c17Tok{{0, "a", nil}, {2, "", c17Join(d1)}, {1, "b", nil}}
		vapi.Check(c17Parse(c) != nil, "mismatched end tag is an error")
	case 4: // tokenizer error after a complete domain: the rest of the document is unknown
		c17Script = []c17Tok{{0, "a", nil}, {2, "", c17Join(d1)}, {1, "a", nil}, {3, "", nil}, {0, "b", nil}, {2, "", c17Join(d2)}, {1, "b", nil}}
		vapi.Check(c17Parse(c) != nil, "a tokenizer error is reported, never a silently partial document")
	case 5: // tokenizer error inside a domain
		c17Script = []c17Tok{{0, "a", nil}, {3, "", nil}, {2, "", c17Join(d1)}, {1, "a", nil}}
		vapi.Check(c17Parse(c) != nil, "a tokenizer error inside a domain is reported")
	case 6: // empty document
		c17Script = nil
		vapi.Check(c17Parse(c) == nil, "empty document parses")
		vapi.Check(len(c.GetDomain("/")) == 0, "empty document has no domains")
	}
	vapi.Reach("c17-shapes")
}

// VerifC17Typed: typed getters return the parsed value or the supplied default.
func VerifC17Typed() {
	n := 1 + vapi.Len("vlen", 2)
	val := vapi.Bytes("val", n)
	for _, ch := range val {
		vapi.Assume(vapi.Or(vapi.InRange(ch, '0', '9'), vapi.Or(ch == '-', vapi.Or(ch == 't', ch == 'x'))))
	}
	line := append([]byte("k="), val...)
	c17Script = []c17Tok{{0, "a", nil}, {2, "", c17Join([][]byte{line})}, {1, "a", nil}}
	c := New()
	vapi.Check(c17Parse(c) == nil, "document parses")
	// reference decimal reading: optional '-' then digits only
	neg := val[0] == '-'
	digits := val
	if neg {
		digits = val[1:]
	}
	okNum := len(digits) > 0
	var want int64
	for _, ch := range digits {
		if ch < '0' || ch > '9' {
			okNum = false
		}
		want = want*10 + int64(ch-'0')
	}
	if neg {
		want = -want
	}
	gi := c.GetIntWithDef("/a<k>", 777)
	g32 := c.GetInt32WithDef("/a<k>", 777)
	if okNum {
		vapi.Check(int64(gi) == want, "GetInt returns the parsed value")
		vapi.Check(int64(g32) == want, "GetInt32 returns the parsed value")
	} else {
		vapi.Check(gi == 777, "GetInt returns the default for a malformed value")
		vapi.Check(g32 == 777, "GetInt32 returns the default for a malformed value")
	}
	vapi.Check(c.GetIntWithDef("/a<nokey>", 5) == 5, "GetInt returns the default for an absent key")
	gb := c.GetBoolWithDef("/a<k>", false)
	wantB := (n == 1 && (val[0] == '1' || val[0] == 't'))
	vapi.Check(gb == wantB, "GetBool returns the parsed value or the default")
	vapi.Reach("c17-typed")
}
