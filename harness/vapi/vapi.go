// Package vapi is the harness API shared by the symbolic engine (gosym) and the
// native replay build. gosym intercepts the primitives (U64, Assume, Check, Fail,
// Reach, Choice, Setting, Concrete, Engine, Note, Advance, NowNs) and executes everything else in
// this file as ordinary Go. Natively the primitives read the counterexample vector named
// by $VERIF_VECTOR (JSON list of {name,width,value}); symbols are matched by name in
// order of creation.
package vapi

import (
	"encoding/json"
	"fmt"
	"os"
	"strings"
	"sync"
	"time"
)

type symValue struct {
	Name  string `json:"name"`
	Width int    `json:"width"`
	Value uint64 `json:"value"`
}

var (
	mu      sync.Mutex
	loaded  bool
	queues  map[string][]uint64
	Failed  []string
	Reached []string
)

func load() {
	if loaded {
		return
	}
	loaded = true
	queues = map[string][]uint64{}
	p := os.Getenv("VERIF_VECTOR")
	if p == "" {
		return
	}
	b, err := os.ReadFile(p)
	if err != nil {
		panic("vapi: " + err.Error())
	}
	var vec []symValue
	if err := json.Unmarshal(b, &vec); err != nil {
		panic("vapi: " + err.Error())
	}
	for _, s := range vec {
		base := s.Name
		if i := strings.LastIndexByte(base, '#'); i >= 0 {
			base = base[:i]
		}
		queues[base] = append(queues[base], s.Value)
	}
}

// ResetVector re-reads the vector (used by replay drivers running several rounds).
func ResetVector() { mu.Lock(); loaded = false; Failed = nil; Reached = nil; mu.Unlock() }

// U64 returns a fresh symbolic value of the given bit width (zero-extended).
func U64(name string, bits int) uint64 {
	mu.Lock()
	defer mu.Unlock()
	load()
	q := queues[name]
	if len(q) == 0 {
		return 0
	}
	queues[name] = q[1:]
	return q[0]
}

// Has reports whether the replay vector still holds a value for name (always true in the engine).
func Has(name string) bool {
	mu.Lock()
	defer mu.Unlock()
	load()
	return len(queues[name]) > 0
}

// Assume restricts the inputs considered. Natively a violated assumption means the
// vector does not follow this path: the replay stops as "not reproduced".
func Assume(c bool) {
	if !c {
		fmt.Println("VERIF-ASSUME-FAILED")
		os.Exit(4)
	}
}

// Check is the property assertion.
func Check(c bool, label string) {
	if !c {
		mu.Lock()
		Failed = append(Failed, label)
		mu.Unlock()
		fmt.Println("VERIF-CHECK-FAILED " + label)
	}
}

// Fail marks an unconditional violation.
func Fail(label string) { Check(false, label) }

// Reach marks a point that must be reachable (vacuity guard).
func Reach(label string) { mu.Lock(); Reached = append(Reached, label); mu.Unlock() }

// Choice returns a value in [0,n) explored exhaustively by the engine.
func Choice(name string, n int) int {
	v := int(U64(name, 8))
	if n <= 0 {
		return 0
	}
	return v % n
}

// Setting adjusts engine bounds/options for the current path (no-op natively).
func Setting(key string, v int) {}

// Concrete forks over the feasible values of x in the engine (identity natively).
func Concrete(x uint64) uint64 { return x }

// Engine reports whether the code runs inside gosym.
func Engine() bool { return false }

// Note records a trace note.
func Note(s string) {}

// Advance moves the virtual clock (engine only).
func Advance(ns int64) {}

// Quiesce waits until every other goroutine has finished or is blocked (natively: a short sleep).
func Quiesce() { time.Sleep(20 * time.Millisecond) }

// NowNs returns virtual nanoseconds since start (engine only).
func NowNs() int64 { return 0 }

// And / Or are non-short-circuit boolean connectives: in the engine they build one term
// instead of forking the path (Go's && and || compile to branches).
func And(a, b bool) bool { return a && b }
func Or(a, b bool) bool  { return a || b }

// Ite selects a or b without forking the path.
func Ite(c bool, a, b uint64) uint64 {
	if c {
		return a
	}
	return b
}

// InRange reports lo <= c <= hi without forking.
func InRange(c, lo, hi byte) bool { return And(c >= lo, c <= hi) }

// ---- derived helpers (ordinary Go, executed symbolically by the engine) ----

func Bool(name string) bool       { return U64(name, 1) != 0 }
func Byte(name string) byte       { return byte(U64(name, 8)) }
func Int8(name string) int8       { return int8(U64(name, 8)) }
func Uint8(name string) uint8     { return uint8(U64(name, 8)) }
func Int16(name string) int16     { return int16(U64(name, 16)) }
func Uint16(name string) uint16   { return uint16(U64(name, 16)) }
func Int32(name string) int32     { return int32(U64(name, 32)) }
func Uint32(name string) uint32   { return uint32(U64(name, 32)) }
func Int64(name string) int64     { return int64(U64(name, 64)) }
func Uint64(name string) uint64   { return U64(name, 64) }
func Int(name string) int         { return int(U64(name, 64)) }

// Bytes returns n fresh symbolic bytes.
func Bytes(name string, n int) []byte {
	b := make([]byte, n)
	for i := range b {
		b[i] = Byte(name)
	}
	return b
}

// String returns a string of n fresh symbolic bytes.
func String(name string, n int) string { return string(Bytes(name, n)) }

// Len returns a symbolic length in [0,max], already case-split to a concrete value.
func Len(name string, max int) int {
	v := U64(name, 8)
	Assume(v <= uint64(max))
	return int(Concrete(v))
}

// BytesEq compares two byte slices (explicit loop: keeps symbolic terms small).
func BytesEq(a, b []byte) bool {
	if len(a) != len(b) {
		return false
	}
	var diff byte
	for i := range a {
		diff |= a[i] ^ b[i]
	}
	return diff == 0
}
