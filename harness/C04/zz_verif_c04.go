package vtypes

// C04 harnesses: unknown fields are skipped exactly, absent optionals take IDL defaults (also
// on a reused target), absent required members are errors, old/new schema versions interoperate.
// Extra fields are built by an independent reference writer (wHead + payloads below).

import (
	"github.com/TarsCloud/TarsGo/tars/protocol/codec"
	"github.com/TarsCloud/TarsGo/tars/zzverif/vapi"
)

// c04Field builds one well-formed field of a symbolic wire type (all 14) with symbolic content,
// nested up to depth levels.
// c04MaxLen bounds inner lengths (2 at depth <= 1; the depth-2 harness uses 1)
var c04MaxLen = 2

func c04Field(tag int, depth int) []byte {
	var ty byte
	if depth == 0 {
		// leaf wire types only
		ty = []byte{tyByte, tyShort, tyInt, tyLong, tyFloat, tyDouble, tyStr1, tyStr4, tyZero, tySimple}[vapi.Choice("xty", 10)]
	} else {
		ty = []byte{tyByte, tyShort, tyInt, tyLong, tyFloat, tyDouble, tyStr1, tyStr4, tyZero, tySimple, tyMap, tyList, tyBegin}[vapi.Choice("xty", 13)]
	}
	out := wHead(ty, tag)
	switch ty {
	case tyByte:
		out = append(out, vapi.Bytes("xp", 1)...)
	case tyShort:
		out = append(out, vapi.Bytes("xp", 2)...)
	case tyInt, tyFloat:
		out = append(out, vapi.Bytes("xp", 4)...)
	case tyLong, tyDouble:
		out = append(out, vapi.Bytes("xp", 8)...)
	case tyStr1:
		n := vapi.Len("xslen", c04MaxLen)
		out = append(out, byte(n))
		out = append(out, vapi.Bytes("xs", n)...)
	case tyStr4:
		n := vapi.Len("xslen", c04MaxLen)
		out = append(out, 0, 0, 0, byte(n))
		out = append(out, vapi.Bytes("xs", n)...)
	case tyZero:
	case tySimple:
		n := vapi.Len("xblen", c04MaxLen)
		out = append(out, 0x00)             // element head BYTE tag 0
		out = append(out, c04Count(n)...)  // count at tag 0
		out = append(out, vapi.Bytes("xb", n)...)
	case tyList:
		n := vapi.Len("xllen", c04MaxLen)
		out = append(out, c04Count(n)...)
		for i := 0; i < n; i++ {
			out = append(out, c04Field(0, depth-1)...)
		}
	case tyMap:
		n := vapi.Len("xmlen", 1)
		out = append(out, c04Count(n)...)
		for i := 0; i < n; i++ {
			out = append(out, c04Field(0, depth-1)...)
			out = append(out, c04Field(1, depth-1)...)
		}
	case tyBegin:
		n := vapi.Len("xsn", c04MaxLen)
		t := 0
		for i := 0; i < n; i++ {
			out = append(out, c04Field(t, depth-1)...)
			t += 1 + vapi.Choice("xgap", 2)*15 // also extended tags inside
		}
		out = append(out, 0x0B)
	}
	return out
}

func c04Count(n int) []byte {
	if n == 0 {
		return []byte{0x0C}
	}
	return []byte{0x00, byte(n)}
}

// VerifC04SkipExact: an unknown field of any wire type / nesting followed by a known member:
// the reader finds the member right after it (the skipped field was consumed exactly).
func c04SkipExact(depth int) {
	tag := vapi.Choice("xtag", 3) * 7 // 0, 7, 14
	f := c04Field(tag, depth)
	if vapi.Bool("last") {
		// the unknown field is the last thing in the input: probing for an absent optional member
		// with a higher tag skips it, ends exactly at the end of the input and reports absence
		r := codec.NewReader(append([]byte{}, f...))
		o := int8(77)
		err := r.ReadInt8(&o, 200, false)
		vapi.Check(err == nil, "skip: an unknown field ending exactly at the end of the input is skipped")
		vapi.Check(o == 77, "skip: an absent optional after a trailing unknown field leaves the target alone")
		return
	}
	sent := vapi.Byte("sent")
	vapi.Assume(sent != 0)
	data := append(append([]byte{}, f...), wHead(tyByte, 200)...)
	data = append(data, sent, 0xAB)
	r := codec.NewReader(data)
	var o int8
	err := r.ReadInt8(&o, 200, true)
	vapi.Check(err == nil, "skip: member after an unknown field is found")
	vapi.Check(byte(o) == sent, "skip: member after an unknown field has its value")
	var rest []byte
	vapi.Check(r.ReadBytes(&rest, 1, true) == nil && rest[0] == 0xAB, "skip: cursor exactly after the member")
}

// VerifC04SkipManyContainers: an unknown field that contains MANY containers side by side (a
// list of 65..66 maps / lists / structs, real nesting 2): skipping bookkeeping that is per level
// (the nesting-depth guard) must not add up across siblings.
func VerifC04SkipManyContainers() {
	n := 65 + vapi.Choice("n", 2)
	inner := []byte{tyMap, tyList, tyBegin}[vapi.Choice("inner", 3)]
	f := append(wHead(tyList, 3), 0x00, byte(n)) // LIST at tag 3, count n (BYTE)
	for i := 0; i < n; i++ {
		f = append(f, wHead(inner, 0)...)
		switch inner {
		case tyMap, tyList:
			f = append(f, 0x0C) // count 0
		case tyBegin:
			f = append(f, 0x0B) // empty struct
		}
	}
	sent := vapi.Byte("sent")
	vapi.Assume(sent != 0)
	data := append(append(f, wHead(tyByte, 200)...), sent)
	r := codec.NewReader(data)
	var o int8
	err := r.ReadInt8(&o, 200, true)
	vapi.Check(err == nil, "skip: member after an unknown field with many sibling containers is found")
	vapi.Check(byte(o) == sent, "skip: member after an unknown field has its value")
	// and the same reader can do it again (nothing accumulates in the reader)
	r2 := codec.NewReader(append(append([]byte{}, data...), data...))
	vapi.Check(r2.ReadInt8(&o, 200, true) == nil, "skip: first of two such fields")
	vapi.Reach("c04-skip-many-containers")
}

func VerifC04SkipExact()     { c04SkipExact(1); vapi.Reach("c04-skip-exact") }
func VerifC04SkipExactDeep() { c04MaxLen = 1; c04SkipExact(2); vapi.Reach("c04-skip-exact-deep") }

// VerifC04Insensitive: extra unknown fields between / after the known members of Opts change
// neither the decoded values nor the success of decoding.
func VerifC04Insensitive() {
	v := Opts{A: symI32("a", false), S: vapi.String("s", 1), B: vapi.Bool("b"), L: symI64("l", false), C: Color(vapi.Int8("c")), Hi: symI16("hi", false), Bt: vapi.Int8("bt")}
	// bound: known members are non-zero one-byte values (one encoding shape), so that the
	// exploration is spent on the extra fields
	vapi.Assume(vapi.And(v.A != 0, vapi.And(v.L != 0, vapi.And(v.C != 0, vapi.And(v.Hi != 0, v.Bt != 0)))))
	// encode member by member so that extras can be interleaved at admissible positions
	b1, b2, b3 := codec.NewBuffer(), codec.NewBuffer(), codec.NewBuffer()
	_ = b1.WriteInt32(v.A, 0)
	_ = b1.WriteString(v.S, 1)
	_ = b1.WriteBool(v.B, 2)
	_ = b1.WriteInt64(v.L, 3)
	_ = b1.WriteInt32(int32(v.C), 4)
	_ = b2.WriteInt16(v.Hi, 15)
	_ = b3.WriteInt8(v.Bt, 20)
	// one extra field of any type/nesting at one of the three admissible gaps, or two leaf extras
	pos := vapi.Choice("xpos", 4)
	d := 1
	if pos == 3 {
		d = 0
	}
	var data []byte
	data = append(data, b1.ToBytes()...)
	if pos == 0 || pos == 3 {
		data = append(data, c04Field(5+vapi.Choice("x1tag", 2)*9, d)...) // tag 5 or 14
	}
	data = append(data, b2.ToBytes()...)
	if pos == 1 {
		data = append(data, c04Field(16+vapi.Choice("x2tag", 2)*3, d)...) // tag 16 or 19
	}
	data = append(data, b3.ToBytes()...)
	if pos == 2 || pos == 3 {
		data = append(data, c04Field(21+vapi.Choice("x3tag", 2)*234, d)...) // tag 21 or 255
	}
	var got Opts
	err := got.ReadFrom(codec.NewReader(data))
	vapi.Check(err == nil, "insensitive: decoding succeeds with unknown fields present")
	eq := vapi.And(got.A == v.A, vapi.And(got.S == v.S, vapi.And(got.B == v.B, got.L == v.L)))
	eq = vapi.And(eq, vapi.And(got.C == v.C, vapi.And(got.Hi == v.Hi, got.Bt == v.Bt)))
	vapi.Check(eq, "insensitive: known members decode to the same values")
	vapi.Reach("c04-insensitive")
}

// VerifC04Interop: new writer / old reader and old writer / new reader.
func VerifC04Interop() {
	if vapi.Bool("newwriter") {
		v := V2{A: symI32("a", true), Extra: symI64("extra", true), S: symStr("s", 2), In: symInner("in", false)}
		if vapi.Bool("more") {
			v.More = []int32{symI32("more", false)}
		}
		bs := encode(&v)
		var old V1
		vapi.Check(old.ReadFrom(codec.NewReader(bs)) == nil, "interop: old reader accepts the new writer's bytes")
		vapi.Check(vapi.And(old.A == v.A, old.S == v.S), "interop: old reader sees the members it knows")
	} else {
		v := V1{A: symI32("a", true), S: symStr("s", 2)}
		bs := encode(&v)
		var nw V2
		vapi.Check(nw.ReadFrom(codec.NewReader(bs)) == nil, "interop: new reader accepts the old writer's bytes")
		vapi.Check(vapi.And(nw.A == v.A, nw.S == v.S), "interop: new reader sees the old members")
		vapi.Check(vapi.And(nw.Extra == 0, vapi.And(len(nw.More) == 0, vapi.And(nw.In.A == 0, nw.In.S == "dflt"))), "interop: members unknown to the old writer take their defaults")
	}
	vapi.Reach("c04-interop")
}

// VerifC04Defaults: absent optional members decode to the IDL default also when the target
// struct is reused (pre-filled with arbitrary values); an absent required member is an error.
func VerifC04Defaults() {
	// target with arbitrary stale content
	t := Opts{A: vapi.Int32("ta"), S: symStr("ts", 1), B: vapi.Bool("tb"), L: vapi.Int64("tl"), C: Color(vapi.Int32("tc")), Hi: vapi.Int16("thi"), Bt: vapi.Int8("tbt")}
	// an encoding that carries only a symbolic subset of the members
	b := codec.NewBuffer()
	hasA, hasS, hasL, hasBt := vapi.Bool("hasA"), vapi.Bool("hasS"), vapi.Bool("hasL"), vapi.Bool("hasBt")
	a, s, l, bt := symI32("a", false), symStr("s", 1), symI64("l", false), vapi.Int8("bt")
	if hasA {
		_ = b.WriteInt32(a, 0)
	}
	if hasS {
		_ = b.WriteString(s, 1)
	}
	if hasL {
		_ = b.WriteInt64(l, 3)
	}
	if hasBt {
		_ = b.WriteInt8(bt, 20)
	}
	vapi.Check(t.ReadFrom(codec.NewReader(b.ToBytes())) == nil, "defaults: decoding succeeds")
	if hasA {
		vapi.Check(t.A == a, "defaults: present member decoded")
	} else {
		vapi.Check(t.A == 7, "defaults: absent optional with explicit default")
	}
	if hasS {
		vapi.Check(t.S == s, "defaults: present string decoded")
	} else {
		vapi.Check(t.S == "", "defaults: absent optional string takes the IDL default on a reused struct")
	}
	if hasL {
		vapi.Check(t.L == l, "defaults: present long decoded")
	} else {
		vapi.Check(t.L == 0, "defaults: absent optional long takes the IDL default on a reused struct")
	}
	if hasBt {
		vapi.Check(t.Bt == bt, "defaults: present byte decoded")
	} else {
		vapi.Check(t.Bt == 0, "defaults: absent optional byte takes the IDL default on a reused struct")
	}
	vapi.Check(vapi.And(t.B == true, vapi.And(t.C == Color_GREEN, t.Hi == -3)), "defaults: absent optionals with explicit defaults")
	vapi.Reach("c04-defaults")
}

// VerifC04DefaultsContainers: reused V2 target with stale optional containers / nested struct.
func VerifC04DefaultsContainers() {
	t := V2{A: 1, Extra: vapi.Int64("textra"), S: symStr("ts", 1), More: []int32{vapi.Int32("tmore")}, In: Inner{A: vapi.Int32("tina"), S: symStr("tins", 1)}}
	v := V1{A: symI32("a", false)}
	vapi.Check(t.ReadFrom(codec.NewReader(encode(&v))) == nil, "defaults: decoding succeeds")
	vapi.Check(t.A == v.A, "defaults: required member decoded")
	vapi.Check(t.Extra == 0, "defaults: absent optional long on a reused struct")
	vapi.Check(t.S == "", "defaults: absent optional string on a reused struct")
	vapi.Check(len(t.More) == 0, "defaults: absent optional vector on a reused struct")
	vapi.Check(vapi.And(t.In.A == 0, t.In.S == "dflt"), "defaults: absent optional struct on a reused struct")
	vapi.Reach("c04-defaults-containers")
}

// VerifC04DefaultsAllKinds: a reused V3 target (optional members of every kind WITHOUT an explicit
// IDL default, plus one enum with a default) pre-filled with arbitrary stale content, decoded
// from an encoding that carries only the required member: every optional member ends at its
// default (zero value / empty / the IDL default).
func VerifC04DefaultsAllKinds() {
	t := V3{A: 1, Col: Color(vapi.Int32("tcol")), Flag: vapi.Bool("tflag"), F: 1.5, D: 2.5, U: vapi.Uint32("tu"),
		Mp: map[string]int32{"k": vapi.Int32("tmp")}, Vs: []string{symStr("tvs", 1)}, Bt: vapi.Int8("tbt"), Sh: vapi.Int16("tsh"),
		Raw: []int8{vapi.Int8("traw")}, Ub: vapi.Uint8("tub"), Col2: Color(vapi.Int32("tcol2")),
		Ud: vapi.Uint32("tud"), Usd: vapi.Uint16("tusd"), Ubd: vapi.Uint8("tubd"), Ld: vapi.Int64("tld"), Sd: symStr("tsd", 1)}
	v := V1{A: symI32("a", false)}
	vapi.Check(t.ReadFrom(codec.NewReader(encode(&v))) == nil, "defaults: decoding succeeds")
	vapi.Check(t.A == v.A, "defaults: required member decoded")
	vapi.Check(t.Col == 0, "defaults: absent optional enum without default on a reused struct")
	vapi.Check(!t.Flag, "defaults: absent optional bool on a reused struct")
	vapi.Check(vapi.And(t.F == 0, t.D == 0), "defaults: absent optional float/double on a reused struct")
	vapi.Check(vapi.And(t.U == 0, vapi.And(t.Bt == 0, vapi.And(t.Sh == 0, t.Ub == 0))), "defaults: absent optional integers on a reused struct")
	vapi.Check(len(t.Mp) == 0, "defaults: absent optional map on a reused struct")
	vapi.Check(vapi.And(len(t.Vs) == 0, len(t.Raw) == 0), "defaults: absent optional vectors on a reused struct")
	vapi.Check(t.Col2 == Color_BLUE, "defaults: absent optional enum with explicit default on a reused struct")
	vapi.Check(vapi.And(t.Ud == 3000, vapi.And(t.Usd == 7, t.Ubd == 9)), "defaults: absent optional unsigned members take their explicit IDL defaults")
	vapi.Check(vapi.And(t.Ld == -5, t.Sd == "dflt"), "defaults: absent optional long/string take their explicit IDL defaults")
	// and on a fresh target
	var f V3
	vapi.Check(f.ReadFrom(codec.NewReader(encode(&v))) == nil, "defaults: decoding into a fresh struct succeeds")
	vapi.Check(vapi.And(f.Ud == 3000, vapi.And(f.Usd == 7, vapi.And(f.Ubd == 9, vapi.And(f.Ld == -5, vapi.And(f.Sd == "dflt", f.Col2 == Color_BLUE))))), "defaults: a fresh struct gets the explicit IDL defaults of absent optionals")
	vapi.Reach("c04-defaults-allkinds")
}

// VerifC04NestedDefaults: nested structs (member, optional member, vector elements) whose own
// optional members are ALL absent - an empty body on the wire, StructBegin directly followed by
// StructEnd - or absent except one: probing for absent optionals (tag 0 in particular) inside a
// nested body must stop at its StructEnd and leave the defaults in place.
func c04NestedOpts(name string) Slim {
	var o Slim
	o.ResetDefault() // every member at its default: nothing is written, the body is empty
	switch vapi.Choice(name, 3) {
	case 1:
		o.A = symI32(name+"a", false)
	case 2:
		o.S = symStr(name+"s", 1)
	}
	return o
}

func c04OptsEq(a, b Slim) bool { return vapi.And(a.A == b.A, a.S == b.S) }

func VerifC04NestedDefaults() {
	v := Holder{O: c04NestedOpts("o"), Oo: c04NestedOpts("oo")}
	for i, n := 0, vapi.Len("nvo", 2); i < n; i++ {
		v.Vo = append(v.Vo, c04NestedOpts("vo"))
	}
	var got Holder
	// a reused target with stale nested content
	got.O.A, got.Oo.S = vapi.Int32("stalea"), symStr("stales", 1)
	vapi.Check(got.ReadFrom(codec.NewReader(encode(&v))) == nil, "nested defaults: decoding succeeds")
	eq := vapi.And(c04OptsEq(got.O, v.O), c04OptsEq(got.Oo, v.Oo))
	eq = vapi.And(eq, len(got.Vo) == len(v.Vo))
	for i := range v.Vo {
		if i < len(got.Vo) {
			eq = vapi.And(eq, c04OptsEq(got.Vo[i], v.Vo[i]))
		}
	}
	vapi.Check(eq, "nested defaults: absent optionals of nested structs keep their IDL defaults, present ones are decoded")
	vapi.Reach("c04-nested-defaults")
}

// VerifC04Required: an encoding lacking a required member is rejected.
func VerifC04Required() {
	b := codec.NewBuffer()
	switch vapi.Choice("case", 3) {
	case 0: // Inner without its required member a (tag 0), only the optional s
		_ = b.WriteString(symStr("s", 1), 1)
		var v Inner
		vapi.Check(v.ReadFrom(codec.NewReader(b.ToBytes())) != nil, "required: Inner without member a is rejected")
	case 1: // Outer without the required struct member in (tag 0)
		_ = b.WriteInt32(symI32("c", false), 2)
		var v Outer
		vapi.Check(v.ReadFrom(codec.NewReader(b.ToBytes())) != nil, "required: Outer without member in is rejected")
	case 2: // Outer with in but without the required enum c
		in := symInner("in", false)
		_ = in.WriteBlock(b, 0)
		var v Outer
		vapi.Check(v.ReadFrom(codec.NewReader(b.ToBytes())) != nil, "required: Outer without member c is rejected")
	}
	vapi.Reach("c04-required")
}

// VerifC04UnreadExact: looking for an absent optional member leaves the following field intact,
// for every pair of tags (in particular around the short/extended head boundary at 15).
func VerifC04UnreadExact() {
	t1, t2 := vapi.Byte("t1"), vapi.Byte("t2")
	vapi.Assume(t1 < t2)
	val := vapi.Byte("val")
	vapi.Assume(val != 0)
	var data []byte
	if t2 < 15 {
		data = []byte{t2<<4 | tyByte, val, 0xAB}
	} else {
		data = []byte{0xF0 | tyByte, t2, val, 0xAB}
	}
	r := codec.NewReader(data)
	var a int8 = 55
	vapi.Check(r.ReadInt8(&a, t1, false) == nil && a == 55, "absent optional member: no error, target untouched")
	var b int8
	vapi.Check(r.ReadInt8(&b, t2, true) == nil, "the following member is still readable")
	vapi.Check(byte(b) == val, "the following member has its value")
	var rest []byte
	vapi.Check(r.ReadBytes(&rest, 1, true) == nil && rest[0] == 0xAB, "cursor exactly after the following member")
	// the same when the optional lookup happens inside a nested struct that ends right away
	vapi.Reach("c04-unread-exact")
}
