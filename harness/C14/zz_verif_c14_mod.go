package modhash

// C14 harness (mod-hash): code h goes to slot h mod N of the installed endpoint list after any history.

import (
	"github.com/TarsCloud/TarsGo/tars/selector"
	"github.com/TarsCloud/TarsGo/tars/util/endpoint"
	"github.com/TarsCloud/TarsGo/tars/zzverif/vapi"
)

var c14Hosts = []string{"10.0.0.1", "10.0.0.2", "10.0.0.3"}

type c14Msg struct{ code uint32 }

func (m *c14Msg) HashCode() uint32            { return m.code }
func (m *c14Msg) HashType() selector.HashType { return selector.ModHash }
func (m *c14Msg) IsHash() bool                { return true }

func c14Ep(i int) endpoint.Endpoint {
	return endpoint.Endpoint{Host: c14Hosts[i], Port: int32(1000 + i), Weight: 100}
}

func VerifC14ModHash() {
	s := New(false)
	var list []int // reference: installed order
	for st := 0; st < 3; st++ {
		switch vapi.Choice("op", 3) {
		case 0:
			mask := vapi.Choice("mask", 8)
			list = nil
			var eps []endpoint.Endpoint
			for i := 0; i < 3; i++ {
				if mask&(1<<uint(i)) != 0 {
					list = append(list, i)
					eps = append(eps, c14Ep(i))
				}
			}
			s.Refresh(eps)
		case 1:
			i := vapi.Choice("host", 3)
			has := false
			for _, x := range list {
				if x == i {
					has = true
				}
			}
			if s.Add(c14Ep(i)) == nil {
				vapi.Check(!has, "Add succeeds only for a new endpoint")
				list = append(list, i)
			}
		case 2:
			i := vapi.Choice("host", 3)
			if s.Remove(c14Ep(i)) == nil {
				for k, x := range list {
					if x == i {
						list = append(list[:k:k], list[k+1:]...)
						break
					}
				}
			}
		}
	}
	code := vapi.Uint32("code")
	ep, err := s.Select(&c14Msg{code})
	vapi.Check((err != nil) == (len(list) == 0), "Select fails exactly when the list is empty")
	if err == nil {
		slot := int(vapi.Concrete(uint64(code % uint32(len(list)))))
		vapi.Check(ep.Host == c14Hosts[list[slot]], "mod-hash sends code h to slot h mod N of the installed list")
		ep2, _ := s.Select(&c14Msg{code})
		vapi.Check(ep2.Host == ep.Host, "deterministic while the list is unchanged")
	}
	vapi.Reach("c14-modhash")
}

// with static weights the slot is taken in the weighted cycle
func VerifC14ModHashWeighted() {
	s := New(true)
	n := 1 + vapi.Choice("n", 2)
	var eps []endpoint.Endpoint
	for i := 0; i < n; i++ {
		e := c14Ep(i)
		e.Weight = int32(vapi.Concrete(uint64(1 + vapi.Choice("w", 3))))
		e.WeightType = 1
		eps = append(eps, e)
	}
	s.Refresh(eps)
	cyc := selector.BuildStaticWeightList(eps)
	code := vapi.Uint32("code")
	ep, err := s.Select(&c14Msg{code})
	vapi.Check(err == nil && len(cyc) > 0, "weighted select ok")
	slot := int(vapi.Concrete(uint64(code % uint32(len(cyc)))))
	vapi.Check(ep.Host == c14Hosts[cyc[slot]], "weighted mod-hash sends code h to slot h mod len(cycle) of the weighted cycle")
	vapi.Reach("c14-modhash-weighted")
}
