package tars

// C14 harness, plumbing: "a call made with a hash code in its context is routed by these rules".
// The real path context -> ServantProxy.TarsInvoke (GetClientHash -> Message) -> doInvoke ->
// endpointManager.SelectAdapterProxy -> mod-hash / consistent-hash selector, for an arbitrary
// 32-bit hash code and either hash type (or none), over a 3-endpoint manager built by the real
// updateActiveEp. The selected adapter must be the endpoint that a fresh selector of that kind,
// refreshed with the manager's installed list, returns for that code (mod-hash: the list slot
// code mod N), and a second call with the same context must select the same endpoint.

import (
	"context"
	"math/rand"
	"sync"
	"time"

	"github.com/TarsCloud/TarsGo/tars/protocol"
	"github.com/TarsCloud/TarsGo/tars/protocol/res/endpointf"
	"github.com/TarsCloud/TarsGo/tars/protocol/res/requestf"
	"github.com/TarsCloud/TarsGo/tars/selector/consistenthash"
	"github.com/TarsCloud/TarsGo/tars/selector/modhash"
	"github.com/TarsCloud/TarsGo/tars/util/current"
	"github.com/TarsCloud/TarsGo/tars/util/endpoint"
	"github.com/TarsCloud/TarsGo/tars/zzverif/vapi"
)

// records the selection and ends the call there (no adapter: doInvoke returns an error at once)
type c14Mgr struct {
	real  *endpointManager
	calls int
	got   *AdapterProxy
	msg   Message
}

func (m *c14Mgr) SelectAdapterProxy(msg *Message) (*AdapterProxy, bool) {
	m.calls++
	m.msg = *msg
	m.got, _ = m.real.SelectAdapterProxy(msg)
	return nil, false
}
func (m *c14Mgr) GetAllEndpoint() []*endpoint.Endpoint { return nil }
func (m *c14Mgr) preInvoke()                            {}
func (m *c14Mgr) postInvoke()                           {}
func (m *c14Mgr) addAliveEp(ep endpoint.Endpoint)       {}

func VerifC14Plumbing() {
	comm := &Communicator{Client: &clientConfig{ObjQueueMax: 100, ClientReadTimeout: 100 * time.Millisecond}, app: &application{allFilters: &filters{}}}
	e := &endpointManager{objName: "obj", comm: comm, freshLock: &sync.Mutex{}, epList: &sync.Map{}, epLock: &sync.Mutex{}, checkAdapterList: &sync.Map{},
		rand: rand.New(rand.NewSource(1)), checkAdapter: make(chan *AdapterProxy, 8)}
	epfs := []endpointf.EndpointF{{Host: "10.0.0.1", Port: 1, Timeout: 3000, Istcp: 1}, {Host: "10.0.0.2", Port: 2, Timeout: 3000, Istcp: 1}, {Host: "10.0.0.3", Port: 3, Timeout: 3000, Istcp: 1}}
	e.activeEpf = epfs
	e.updateActiveEp([]endpoint.Endpoint{endpoint.Tars2endpoint(epfs[0]), endpoint.Tars2endpoint(epfs[1]), endpoint.Tars2endpoint(epfs[2])})
	m := &c14Mgr{real: e}
	s := &ServantProxy{name: "obj", comm: comm, proto: &protocol.TarsProtocol{}, timeout: 100, version: 1, manager: m}

	code := vapi.Uint32("code")
	kind := vapi.Choice("hashtype", 3) // ModHash, ConsistentHash, no hash
	ctx := current.ContextWithClientCurrent(context.Background())
	if kind < 2 {
		current.SetClientHash(ctx, kind, code)
	}
	resp := new(requestf.ResponsePacket)
	_ = s.TarsInvoke(ctx, 0, "f", nil, nil, nil, resp)
	vapi.Check(m.calls == 1 && m.got != nil, "one selection per call, some endpoint selected")
	first := m.got
	if kind < 2 && first != nil {
		vapi.Check(vapi.And(m.msg.isHash, vapi.And(m.msg.hashCode == code, int(m.msg.hashType) == kind)), "the hash code and type of the context reach the selection unchanged")
		ref := &Message{hashCode: code, hashType: HashType(kind), isHash: true}
		var want endpoint.Endpoint
		var err error
		if HashType(kind) == ModHash {
			sel := modhash.New(false)
			sel.Refresh(e.activeEp)
			want, err = sel.Select(ref)
			slot := e.activeEp[int(code%3)]
			vapi.Check(first.GetPoint().Host == slot.Host, "mod-hash: code h goes to slot h mod N of the installed list")
		} else {
			sel := consistenthash.New(false, consistenthash.KetamaHash)
			sel.Refresh(e.activeEp)
			want, err = sel.Select(ref)
		}
		vapi.Check(err == nil && first.GetPoint().Host == want.Host && first.GetPoint().Port == want.Port, "a call with a hash code in its context is routed by the selector's rule for that code")
		// same context again: same endpoint
		_ = s.TarsInvoke(ctx, 0, "f", nil, nil, nil, resp)
		vapi.Check(m.calls == 2 && m.got == first, "the same code goes to the same endpoint while the set is unchanged")
	}
	vapi.Reach("c14-plumbing")
}

// VerifC14BlockReinstate: hash routing stays a function of the hash code and the CURRENT
// endpoint set when the set changes through the manager itself: one of three endpoints (any of
// them) is blocked by the real checkStatus (5 failures in a row for 10 s), then reinstated by
// addAliveEp. After each step a call with any hash code is routed like a fresh selector of that
// kind over the current set would route it; mod-hash: slot code mod N of the remaining list in
// its installed order, and after the reinstatement of that list with the endpoint appended.
func VerifC14BlockReinstate() {
	comm := &Communicator{Client: &clientConfig{ObjQueueMax: 100, ClientReadTimeout: 100 * time.Millisecond}, app: &application{allFilters: &filters{}}}
	e := &endpointManager{objName: "obj", comm: comm, freshLock: &sync.Mutex{}, epList: &sync.Map{}, epLock: &sync.Mutex{}, checkAdapterList: &sync.Map{},
		rand: rand.New(rand.NewSource(1)), checkAdapter: make(chan *AdapterProxy, 8)}
	epfs := []endpointf.EndpointF{{Host: "10.0.0.1", Port: 1, Timeout: 3000, Istcp: 1}, {Host: "10.0.0.2", Port: 2, Timeout: 3000, Istcp: 1}, {Host: "10.0.0.3", Port: 3, Timeout: 3000, Istcp: 1}}
	e.activeEpf = epfs
	e.updateActiveEp([]endpoint.Endpoint{endpoint.Tars2endpoint(epfs[0]), endpoint.Tars2endpoint(epfs[1]), endpoint.Tars2endpoint(epfs[2])})
	installed := append([]endpoint.Endpoint{}, e.activeEp...) // the order the manager installed
	// create the adapters through normal rotation
	rr := &Message{}
	adps := map[string]*AdapterProxy{}
	for i := 0; i < 6 && len(adps) < 3; i++ {
		if a, _ := e.SelectAdapterProxy(rr); a != nil {
			adps[a.GetPoint().Host] = a
		}
	}
	vapi.Assume(len(adps) == 3)
	victim := installed[vapi.Choice("victim", 3)]
	va := adps[victim.Host]
	now := time.Now().Unix()
	for _, a := range adps {
		a.lastSuccessTime, a.lastCheckTime = now, now
	}
	for k := 0; k < 5; k++ {
		va.sendAdd()
		va.failAdd()
	}
	va.lastSuccessTime = now - 10
	e.checkStatus()
	vapi.Check(!va.status, "the failing endpoint is blocked")
	var remaining []endpoint.Endpoint
	for _, ep := range installed {
		if ep.Host != victim.Host {
			remaining = append(remaining, ep)
		}
	}
	code := vapi.Uint32("code")
	kind := vapi.Choice("hashtype", 2)
	route := func() string {
		msg := &Message{hashCode: code, hashType: HashType(kind), isHash: true}
		a, _ := e.SelectAdapterProxy(msg)
		if a == nil {
			return ""
		}
		return a.GetPoint().Host
	}
	fresh := func(set []endpoint.Endpoint) string {
		ref := &Message{hashCode: code, hashType: HashType(kind), isHash: true}
		if HashType(kind) == ModHash {
			sel := modhash.New(false)
			sel.Refresh(append([]endpoint.Endpoint{}, set...))
			ep, _ := sel.Select(ref)
			return ep.Host
		}
		sel := consistenthash.New(false, consistenthash.KetamaHash)
		sel.Refresh(append([]endpoint.Endpoint{}, set...))
		ep, _ := sel.Select(ref)
		return ep.Host
	}
	vapi.Check(route() == fresh(remaining), "after a block, a hash code is routed by the rule over the remaining set")
	if HashType(kind) == ModHash {
		vapi.Check(route() == remaining[int(code%2)].Host, "mod-hash after a block: slot code mod N of the remaining list")
	}
	// reinstatement
	va.reset()
	e.addAliveEp(victim)
	all := append(append([]endpoint.Endpoint{}, remaining...), victim)
	vapi.Check(route() == fresh(all), "after the reinstatement, a hash code is routed by the rule over the full set")
	vapi.Reach("c14-block-reinstate")
}
