package tars

// C14 harness, plumbing: "a call made with a hash code in its context is routed by these rules".
// The real path context -> ServantProxy.TarsInvoke (GetClientHash -> Message) -> doInvoke ->
// endpointManager.SelectAdapterProxy -> mod-hash / consistent-hash selector, for an arbitrary
// 32-bit hash code and either hash type (or none), over a 3-endpoint manager built by the real
// updateActiveEp. The selected adapter must be the endpoint that a fresh selector of that kind,
// refreshed with the manager's installed list, returns for that code (mod-hash: the list slot
// code mod N), and a second call with the same context must select the same endpoint.

import (
	"context"
	"math/rand"
	"sync"
	"time"

	"github.com/TarsCloud/TarsGo/tars/protocol"
	"github.com/TarsCloud/TarsGo/tars/protocol/res/endpointf"
	"github.com/TarsCloud/TarsGo/tars/protocol/res/requestf"
	"github.com/TarsCloud/TarsGo/tars/selector/consistenthash"
	"github.com/TarsCloud/TarsGo/tars/selector/modhash"
	"github.com/TarsCloud/TarsGo/tars/util/current"
	"github.com/TarsCloud/TarsGo/tars/util/endpoint"
	"github.com/TarsCloud/TarsGo/tars/zzverif/vapi"
)

// records the selection and ends the call there (no adapter: doInvoke returns an error at once)
type c14Mgr struct {
	real  *endpointManager
	calls int
	got   *AdapterProxy
	msg   Message
}

func (m *c14Mgr) SelectAdapterProxy(msg *Message) (*AdapterProxy, bool) {
	m.calls++
	m.msg = *msg
	m.got, _ = m.real.SelectAdapterProxy(msg)
	return nil, false
}
func (m *c14Mgr) GetAllEndpoint() []*endpoint.Endpoint { return nil }
func (m *c14Mgr) preInvoke()                            {}
func (m *c14Mgr) postInvoke()                           {}
func (m *c14Mgr) addAliveEp(ep endpoint.Endpoint)       {}

func VerifC14Plumbing() {
	comm := &Communicator{Client: &clientConfig{ObjQueueMax: 100, ClientReadTimeout: 100 * time.Millisecond}, app: &application{allFilters: &filters{}}}
	e := &endpointManager{objName: "obj", comm: comm, freshLock: &sync.Mutex{}, epList: &sync.Map{}, epLock: &sync.Mutex{}, checkAdapterList: &sync.Map{},
		rand: rand.New(rand.NewSource(1)), checkAdapter: make(chan *AdapterProxy, 8)}
	epfs := []endpointf.EndpointF{{Host: "10.0.0.1", Port: 1, Timeout: 3000, Istcp: 1}, {Host: "10.0.0.2", Port: 2, Timeout: 3000, Istcp: 1}, {Host: "10.0.0.3", Port: 3, Timeout: 3000, Istcp: 1}}
	e.activeEpf = epfs
	e.updateActiveEp([]endpoint.Endpoint{endpoint.Tars2endpoint(epfs[0]), endpoint.Tars2endpoint(epfs[1]), endpoint.Tars2endpoint(epfs[2])})
	m := &c14Mgr{real: e}
	s := &ServantProxy{name: "obj", comm: comm, proto: &protocol.TarsProtocol{}, timeout: 100, version: 1, manager: m}

	code := vapi.Uint32("code")
	kind := vapi.Choice("hashtype", 3) // ModHash, ConsistentHash, no hash
	ctx := current.ContextWithClientCurrent(context.Background())
	if kind < 2 {
		current.SetClientHash(ctx, kind, code)
	}
	resp := new(requestf.ResponsePacket)
	_ = s.TarsInvoke(ctx, 0, "f", nil, nil, nil, resp)
	vapi.Check(m.calls == 1 && m.got != nil, "one selection per call, some endpoint selected")
	first := m.got
	if kind < 2 && first != nil {
		vapi.Check(vapi.And(m.msg.isHash, vapi.And(m.msg.hashCode == code, int(m.msg.hashType) == kind)), "the hash code and type of the context reach the selection unchanged")
		ref := &Message{hashCode: code, hashType: HashType(kind), isHash: true}
		var want endpoint.Endpoint
		var err error
		if HashType(kind) == ModHash {
			sel := modhash.New(false)
			sel.Refresh(e.activeEp)
			want, err = sel.Select(ref)
			slot := e.activeEp[int(code%3)]
			vapi.Check(first.GetPoint().Host == slot.Host, "mod-hash: code h goes to slot h mod N of the installed list")
		} else {
			sel := consistenthash.New(false, consistenthash.KetamaHash)
			sel.Refresh(e.activeEp)
			want, err = sel.Select(ref)
		}
		vapi.Check(err == nil && first.GetPoint().Host == want.Host && first.GetPoint().Port == want.Port, "a call with a hash code in its context is routed by the selector's rule for that code")
		// same context again: same endpoint
		_ = s.TarsInvoke(ctx, 0, "f", nil, nil, nil, resp)
		vapi.Check(m.calls == 2 && m.got == first, "the same code goes to the same endpoint while the set is unchanged")
	}
	vapi.Reach("c14-plumbing")
}
