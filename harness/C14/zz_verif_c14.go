package consistenthash

// C14 harnesses (consistent hashing): routing is a pure function of hash code and member set:
// agreement with an independently built Ketama ring for every 32-bit key, independence of the
// Add/Remove/Refresh history, minimal disruption on Remove/Add. Host universes are concrete (so
// MD5 is computed exactly); the hash code and the history are symbolic.

import (
	"crypto/md5"
	"fmt"
	"sort"

	"github.com/TarsCloud/TarsGo/tars/selector"
	"github.com/TarsCloud/TarsGo/tars/util/endpoint"
	"github.com/TarsCloud/TarsGo/tars/zzverif/vapi"
)

var c14Hosts = []string{"10.0.0.1", "10.0.0.2", "10.0.0.3", "10.0.0.4"}

type c14Msg struct{ code uint32 }

func (m *c14Msg) HashCode() uint32            { return m.code }
func (m *c14Msg) HashType() selector.HashType { return selector.ConsistentHash }
func (m *c14Msg) IsHash() bool                { return true }

func c14Ep(i int) endpoint.Endpoint {
	return endpoint.Endpoint{Host: c14Hosts[i], Port: int32(1000 + i), Weight: 100}
}

func c14HostIndex(h string) int {
	for i, x := range c14Hosts {
		if x == h {
			return i
		}
	}
	return -1
}

type c14Point struct {
	key   uint32
	owner int
}

// reference Ketama ring: virtual nodes "<host>_<i>", 4 points per MD5 digest, sorted by point
func c14RefRing(member [4]bool, vnodes int) []c14Point {
	var ring []c14Point
	for h := 0; h < 4; h++ {
		if !member[h] {
			continue
		}
		for i := 0; i < vnodes; i++ {
			d := md5.Sum([]byte(fmt.Sprintf("%s_%d", c14Hosts[h], i)))
			for k := 0; k < 4; k++ {
				p := uint32(d[4*k+3])<<24 | uint32(d[4*k+2])<<16 | uint32(d[4*k+1])<<8 | uint32(d[4*k])
				ring = append(ring, c14Point{p, h})
			}
		}
	}
	sort.Slice(ring, func(a, b int) bool { return ring[a].key < ring[b].key })
	return ring
}

// owner of key on the reference ring: first point >= key, wrapping (computed without forking)
func c14RefOwner(ring []c14Point, key uint32) uint64 {
	want := uint64(ring[0].owner) // wrap-around default
	for i := len(ring) - 1; i >= 0; i-- {
		want = vapi.Ite(key <= ring[i].key, uint64(ring[i].owner), want)
	}
	return want
}

// symbolic history over the universe; returns the resulting member set
func c14History(c *ConsistentHash, steps int, nhosts int) [4]bool {
	var member [4]bool
	for st := 0; st < steps; st++ {
		switch vapi.Choice("op", 3) {
		case 0:
			mask := vapi.Choice("mask", 1<<uint(nhosts))
			var eps []endpoint.Endpoint
			for i := 0; i < nhosts; i++ {
				member[i] = mask&(1<<uint(i)) != 0
				if member[i] {
					eps = append(eps, c14Ep(i))
				}
			}
			c.Refresh(eps)
		case 1:
			i := vapi.Choice("host", nhosts)
			err := c.Add(c14Ep(i))
			vapi.Check((err != nil) == member[i], "Add fails exactly for an existing member")
			member[i] = true
		case 2:
			i := vapi.Choice("host", nhosts)
			err := c.Remove(c14Ep(i))
			vapi.Check((err != nil) == !member[i], "Remove fails exactly for a non-member")
			member[i] = false
		}
	}
	return member
}

func c14Empty(m [4]bool) bool { return !m[0] && !m[1] && !m[2] && !m[3] }

// VerifC14RingSmall: after any history (reduced virtual-node count) every key is routed to the
// owner given by the independently built ring; selection errs exactly when the set is empty.
func c14Ring(steps, nhosts, replicates int) {
	c := New(false, KetamaHash)
	c.replicates = replicates
	m := c14History(c, steps, nhosts)
	key := vapi.Uint32("key")
	ep, err := c.Select(&c14Msg{key})
	vapi.Check((err != nil) == c14Empty(m), "Select fails exactly when the set is empty")
	if err == nil {
		ring := c14RefRing(m, c.weight(100))
		got := c14HostIndex(ep.Host)
		vapi.Check(got >= 0 && m[got], "Select returns a member")
		vapi.Check(uint64(got) == c14RefOwner(ring, key), "routing agrees with the reference Ketama ring for every key")
		ep2, _ := c.Select(&c14Msg{key})
		vapi.Check(ep2.Host == ep.Host, "the same code goes to the same endpoint while the set is unchanged")
	}
}

func VerifC14RingSmall() { c14Ring(2, 3, 8); vapi.Reach("c14-ring-small") }
func VerifC14RingLong()  { c14Ring(3, 3, 8); vapi.Reach("c14-ring-long") }

// the production virtual-node count (100 -> 25 digests -> 100 points per host), fixed history
func VerifC14RingFull() {
	c := New(false, KetamaHash)
	n := 2
	var m [4]bool
	var eps []endpoint.Endpoint
	for i := 0; i < n; i++ {
		m[i] = true
		eps = append(eps, c14Ep(i))
	}
	c.Refresh(eps)
	key := vapi.Uint32("key")
	ep, err := c.Select(&c14Msg{key})
	vapi.Check(err == nil, "Select succeeds on a non-empty set")
	ring := c14RefRing(m, c.weight(100))
	vapi.Check(uint64(c14HostIndex(ep.Host)) == c14RefOwner(ring, key), "routing agrees with the reference Ketama ring (100 virtual nodes)")
	vapi.Reach("c14-ring-full")
}

// VerifC14HistoryIndependent: two selectors reaching the same set by different histories agree on every key.
func VerifC14HistoryIndependent() {
	a, b := New(false, KetamaHash), New(false, KetamaHash)
	a.replicates, b.replicates = 8, 8
	ma := c14History(a, 2, 3)
	mb := c14History(b, 2, 3)
	vapi.Assume(ma == mb && !c14Empty(ma))
	key := vapi.Uint32("key")
	ea, erra := a.Select(&c14Msg{key})
	eb, errb := b.Select(&c14Msg{key})
	vapi.Check(erra == nil && errb == nil, "both select")
	vapi.Check(ea.Host == eb.Host, "two clients with the same set agree whatever the history")
	vapi.Reach("c14-history-independent")
}

// VerifC14Disruption: Remove re-routes only keys mapped to the removed endpoint; Add moves keys only onto the new one.
func VerifC14Disruption() {
	c := New(false, KetamaHash)
	c.replicates = 8
	mask := 1 + vapi.Choice("mask", 7)
	var eps []endpoint.Endpoint
	var m [4]bool
	for i := 0; i < 3; i++ {
		m[i] = mask&(1<<uint(i)) != 0
		if m[i] {
			eps = append(eps, c14Ep(i))
		}
	}
	c.Refresh(eps)
	key := vapi.Uint32("key")
	before, _ := c.Select(&c14Msg{key})
	e := vapi.Choice("victim", 3)
	if m[e] {
		vapi.Check(c.Remove(c14Ep(e)) == nil, "remove ok")
		after, err := c.Select(&c14Msg{key})
		if before.Host != c14Hosts[e] {
			vapi.Check(err == nil && after.Host == before.Host, "Remove re-routes only the codes that were mapped to the removed endpoint")
		}
	} else {
		vapi.Check(c.Add(c14Ep(e)) == nil, "add ok")
		after, err := c.Select(&c14Msg{key})
		vapi.Check(err == nil, "select after add")
		vapi.Check(after.Host == before.Host || after.Host == c14Hosts[e], "Add moves codes only onto the new endpoint")
	}
	vapi.Reach("c14-disruption")
}
