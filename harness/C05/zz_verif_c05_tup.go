package tup

// C05 harness (TUP attribute sets): UniAttribute.Decode of arbitrary bytes and of structured
// mutants never panics, terminates and allocates within the budget.

import (
	"github.com/TarsCloud/TarsGo/tars/protocol/codec"
	"github.com/TarsCloud/TarsGo/tars/zzverif/vapi"
)

func c05TupBudget(n int) {
	vapi.Setting("maxalloc", 16*n+64)
	vapi.Setting("alloc-violation", 1)
}

func VerifC05TupRaw() {
	n := vapi.Len("n", 5)
	c05TupBudget(n)
	data := vapi.Bytes("b", n)
	u := NewUniAttribute()
	_ = u.Decode(codec.NewReader(data))
	vapi.Reach("c05-tup-raw")
}

// a map head with an arbitrary 32-bit entry count, one key, a SimpleList value with an arbitrary
// 32-bit byte length, then a short tail
func VerifC05TupLengths() {
	cnt := vapi.Uint32("cnt")
	bl := vapi.Uint32("blen")
	k := vapi.Len("k", 2)
	data := []byte{0x08, 0x02, byte(cnt >> 24), byte(cnt >> 16), byte(cnt >> 8), byte(cnt)} // MAP tag 0, INT count
	data = append(data, 0x06, 0x01, 'a')                                                  // key "a" at tag 0
	data = append(data, 0x1D, 0x00, 0x02, byte(bl>>24), byte(bl>>16), byte(bl>>8), byte(bl)) // tag 1 SimpleList, BYTE head, INT length
	data = append(data, vapi.Bytes("t", k)...)
	c05TupBudget(len(data))
	u := NewUniAttribute()
	_ = u.Decode(codec.NewReader(data))
	vapi.Reach("c05-tup-lengths")
}
