package requestf

// C05 harnesses (generated struct layer): RequestPacket / ResponsePacket decoding of arbitrary
// bytes and of structured mutants (valid prefix + attacker-controlled lengths and tails).

import (
	"github.com/TarsCloud/TarsGo/tars/protocol/codec"
	"github.com/TarsCloud/TarsGo/tars/zzverif/vapi"
)

func c05Budget(n int) {
	vapi.Setting("maxalloc", 16*n+64)
	vapi.Setting("alloc-violation", 1)
}

// valid minimal encodings of the leading required scalar/string members
var c05ReqPrefix = []byte{0x1C, 0x2C, 0x3C, 0x4C, 0x56, 0x00, 0x66, 0x00} // tags 1..6
var c05RspPrefix = []byte{0x1C, 0x2C, 0x3C, 0x4C, 0x5C}                   // tags 1..5

func VerifC05ReqRaw() {
	n := vapi.Len("n", 5)
	c05Budget(n)
	data := vapi.Bytes("b", n)
	var p RequestPacket
	_ = p.ReadFrom(codec.NewReader(data))
	vapi.Reach("c05-req-raw")
}

func VerifC05RspRaw() {
	n := vapi.Len("n", 5)
	c05Budget(n)
	data := vapi.Bytes("b", n)
	var p ResponsePacket
	_ = p.ReadFrom(codec.NewReader(data))
	vapi.Reach("c05-rsp-raw")
}

// valid prefix up to the byte vector member, then arbitrary bytes
func VerifC05ReqTail() {
	n := vapi.Len("n", 5)
	c05Budget(len(c05ReqPrefix) + n)
	data := append(append([]byte{}, c05ReqPrefix...), vapi.Bytes("b", n)...)
	var p RequestPacket
	_ = p.ReadFrom(codec.NewReader(data))
	vapi.Reach("c05-req-tail")
}

func VerifC05RspTail() {
	n := vapi.Len("n", 5)
	c05Budget(len(c05RspPrefix) + n)
	data := append(append([]byte{}, c05RspPrefix...), vapi.Bytes("b", n)...)
	var p ResponsePacket
	_ = p.ReadFrom(codec.NewReader(data))
	vapi.Reach("c05-rsp-tail")
}

// the byte vector announced as LIST or SimpleList with an arbitrary 32-bit length, then a short tail
func VerifC05RspVectorLen() {
	l := vapi.Uint32("len")
	k := vapi.Len("k", 2)
	data := append([]byte{}, c05RspPrefix...)
	if vapi.Bool("simple") {
		data = append(data, 0x6D, 0x00) // tag 6 SimpleList, BYTE head
	} else {
		data = append(data, 0x69) // tag 6 LIST
	}
	data = append(data, 0x02, byte(l>>24), byte(l>>16), byte(l>>8), byte(l)) // INT length at tag 0
	data = append(data, vapi.Bytes("t", k)...)
	c05Budget(len(data))
	var p ResponsePacket
	_ = p.ReadFrom(codec.NewReader(data))
	vapi.Reach("c05-rsp-vectorlen")
}

// the status map announced with an arbitrary 32-bit entry count
func VerifC05RspMapLen() {
	l := vapi.Uint32("len")
	k := vapi.Len("k", 3)
	data := append([]byte{}, c05RspPrefix...)
	data = append(data, 0x6D, 0x00, 0x0C)                                    // empty byte vector
	data = append(data, 0x78, 0x02, byte(l>>24), byte(l>>16), byte(l>>8), byte(l)) // tag 7 MAP, INT count
	data = append(data, vapi.Bytes("t", k)...)
	c05Budget(len(data))
	var p ResponsePacket
	_ = p.ReadFrom(codec.NewReader(data))
	vapi.Reach("c05-rsp-maplen")
}
