package codec

// C05 harnesses (codec layer): arbitrary bytes never crash, hang or over-allocate.
// Built-in engine obligations do the work: any Go panic, os.Exit, allocation above the
// budget, loop unwinding above the bound or call depth above the bound on a feasible path
// is reported with a concrete input.

import (
	"os"

	"github.com/TarsCloud/TarsGo/tars/zzverif/vapi"
)

func c05Input(max int) []byte {
	n := vapi.Len("n", max)
	vapi.Setting("maxalloc", 16*n+64)
	vapi.Setting("alloc-violation", 1)
	return vapi.Bytes("b", n)
}

// VerifC05RawSkip: SkipToNoCheck / SkipTo over arbitrary bytes with an arbitrary target tag.
func VerifC05RawSkip() {
	data := c05Input(6)
	tag := vapi.Byte("tag")
	r := NewReader(data)
	_, _, _ = r.SkipToNoCheck(tag, vapi.Bool("require"))
	vapi.Reach("c05-raw-skip")
}

// VerifC05RawStructEnd: SkipToStructEnd over arbitrary bytes.
func VerifC05RawStructEnd() {
	data := c05Input(6)
	r := NewReader(data)
	_ = r.SkipToStructEnd()
	vapi.Reach("c05-raw-structend")
}

// VerifC05RawReads: every primitive reader over arbitrary bytes.
func VerifC05RawReads() {
	data := c05Input(5)
	tag := vapi.Byte("tag")
	req := vapi.Bool("require")
	r := NewReader(data)
	switch vapi.Choice("reader", 9) {
	case 0:
		var o int8
		_ = r.ReadInt8(&o, tag, req)
	case 1:
		var o int16
		_ = r.ReadInt16(&o, tag, req)
	case 2:
		var o int32
		_ = r.ReadInt32(&o, tag, req)
	case 3:
		var o int64
		_ = r.ReadInt64(&o, tag, req)
	case 4:
		var o float32
		_ = r.ReadFloat32(&o, tag, req)
	case 5:
		var o float64
		_ = r.ReadFloat64(&o, tag, req)
	case 6:
		var o string
		_ = r.ReadString(&o, tag, req)
	case 7:
		var o bool
		_ = r.ReadBool(&o, tag, req)
	case 8:
		var o uint32
		_ = r.ReadUint32(&o, tag, req)
	}
	vapi.Reach("c05-raw-reads")
}

// VerifC05RawSlices: the bulk readers with an attacker-chosen int32 length.
func VerifC05RawSlices() {
	data := c05Input(4)
	n := vapi.Int32("len")
	r := NewReader(data)
	switch vapi.Choice("reader", 3) {
	case 0:
		var o []int8
		_ = r.ReadSliceInt8(&o, n, true)
	case 1:
		var o []uint8
		_ = r.ReadSliceUint8(&o, n, true)
	case 2:
		var o []byte
		_ = r.ReadBytes(&o, n, true)
	}
	vapi.Reach("c05-raw-slices")
}

// VerifC05Nesting: k nested container openers (StructBegin with any tag) followed by arbitrary
// bytes. The harness spec bounds the call depth: if the skip recursion follows the input's
// nesting without limit, the depth bound is exceeded on a feasible path (violation candidate,
// confirmed natively by pumping the same unit to the maximum packet length in a child process).
func VerifC05Nesting() {
	k := 100
	data := make([]byte, 0, k+2)
	for i := 0; i < k; i++ {
		b := vapi.Byte("open")
		vapi.Assume(vapi.And(b&0x0f == 10, b>>4 < 15))
		data = append(data, b)
	}
	data = append(data, vapi.Bytes("tail", 2)...)
	if !vapi.Engine() && os.Getenv("VERIF_PUMP") != "" {
		// native confirmation: the same nesting unit at maximum packet length (10 MiB)
		big := make([]byte, 0, 10485760)
		for len(big) < 10485760-len(data) {
			big = append(big, data[:k]...)
		}
		data = big
	}
	r := NewReader(data)
	_, _, _ = r.SkipToNoCheck(255, false)
	vapi.Reach("c05-nesting")
}
