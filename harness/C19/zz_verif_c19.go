package gpool

// C19 harnesses: every submitted job runs exactly once with at most W in parallel; Release
// of an idle pool stops all workers; Release with work in progress returns only after running
// jobs have finished and no job starts afterwards. Schedules are explored by the engine
// (preemption-bounded); pool size, queue capacity and job count are symbolic choices.

import (
	"runtime"
	"sync/atomic"

	"github.com/TarsCloud/TarsGo/tars/zzverif/vapi"
)

type c19State struct {
	counts   [3]int32
	running  int32
	released int32
	done     chan int
	w        int32
}

func (s *c19State) job(i int) Job {
	return func() {
		vapi.Check(atomic.LoadInt32(&s.released) == 0, "no job starts after Release returned")
		r := atomic.AddInt32(&s.running, 1)
		vapi.Check(r <= s.w, "at most the configured number of jobs run at the same time")
		atomic.AddInt32(&s.counts[i], 1)
		atomic.AddInt32(&s.running, -1)
		s.done <- i
	}
}

// VerifC19Idle: submit J jobs from 1 or 2 submitters, wait for all of them, release the idle pool.
func VerifC19Idle() {
	w := 1 + vapi.Choice("W", 2)
	q := vapi.Choice("Q", 3)
	j := 1 + vapi.Choice("J", 3)
	s := &c19State{done: make(chan int, 3), w: int32(w)}
	p := NewPool(w, q)
	if j >= 2 && vapi.Choice("submitters", 2) == 1 {
		go func() {
			p.JobQueue <- s.job(j - 1)
		}()
		for i := 0; i < j-1; i++ {
			p.JobQueue <- s.job(i)
		}
	} else {
		for i := 0; i < j; i++ {
			p.JobQueue <- s.job(i)
		}
	}
	for i := 0; i < j; i++ {
		<-s.done
	}
	for i := 0; i < j; i++ {
		vapi.Check(atomic.LoadInt32(&s.counts[i]) == 1, "every submitted job ran exactly once")
	}
	p.Release()
	atomic.StoreInt32(&s.released, 1)
	vapi.Check(atomic.LoadInt32(&s.running) == 0, "Release returns with no job running")
	vapi.Quiesce()
	if vapi.Engine() {
		vapi.Check(runtime.NumGoroutine() == 1, "all workers and the dispatcher have exited after Release")
	}
	vapi.Reach("c19-idle")
}

// VerifC19Busy: Release is called right after submission, while jobs may be queued or running.
func VerifC19Busy() {
	w := 1 + vapi.Choice("W", 2)
	j := 1 + vapi.Choice("J", 2)
	s := &c19State{done: make(chan int, 3), w: int32(w)}
	p := NewPool(w, 2)
	for i := 0; i < j; i++ {
		p.JobQueue <- s.job(i)
	}
	p.Release()
	atomic.StoreInt32(&s.released, 1)
	vapi.Check(atomic.LoadInt32(&s.running) == 0, "Release returns only after running jobs have finished")
	for i := 0; i < j; i++ {
		vapi.Check(atomic.LoadInt32(&s.counts[i]) <= 1, "no job ran twice")
	}
	vapi.Quiesce()
	vapi.Reach("c19-busy")
}
