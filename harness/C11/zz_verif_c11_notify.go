package tars

// C11, close notification: the server answers a call, then announces that it is going away
// (reconnect notification, id 0) and closes the connection. Calls issued afterwards must succeed
// without waiting for their timeout - through AdapterProxy.onPush (new transport client, graceful
// close of the old one) and the real TarsClient over the in-memory connection of the C09 harness.

import (
	"net"
	"sync/atomic"
	"time"

	"github.com/TarsCloud/TarsGo/tars/transport"
	"github.com/TarsCloud/TarsGo/tars/zzverif/vapi"
)

func VerifC11CloseNotification() {
	msgID = 10
	c09Mode = c09Notify
	c09DialCost = 0
	c09Dials = 0
	c09Notified, c09Accepted = 0, 0
	s, adp := c09Setup(2, 50*time.Millisecond)
	if !vapi.Engine() {
		addr := c09NativeServer()
		adp.conf.Proto = "tcp"
		adp.point.Istcp = 1
		if h, p, err := net.SplitHostPort(addr); err == nil {
			pn := 0
			for _, c := range p {
				pn = pn*10 + int(c-'0')
			}
			adp.point.Host, adp.point.Port = h, int32(pn)
		}
		adp.tarsClient = transport.NewTarsClient(addr, adp, adp.conf)
	}
	var c1, c2, c3 c09Call
	c09Invoke(s, &c1)
	vapi.Check(c1.err == nil, "the call before the notification is answered")
	// the notification arrives and 200 ms later the server closes the connection; the old client is
	// closed gracefully at some 500 ms tick: the next call comes before or after that
	time.Sleep([]time.Duration{250 * time.Millisecond, 500 * time.Millisecond, 1200 * time.Millisecond}[vapi.Choice("gap", 3)])
	c09Invoke(s, &c2)
	vapi.Check(c2.err == nil, "a call issued after the close notification succeeds without waiting for its timeout")
	time.Sleep(1200 * time.Millisecond)
	c09Invoke(s, &c3)
	vapi.Check(c3.err == nil, "a later call on the new connection succeeds")
	vapi.Quiesce()
	// the connection of the first call plus ONE new connection: the healthy connection set up
	// after the notification is not torn down again by what is left of the old one
	conns := atomic.LoadInt32(&c09Dials)
	if !vapi.Engine() {
		time.Sleep(50 * time.Millisecond)
		conns = atomic.LoadInt32(&c09Accepted)
	}
	vapi.Check(conns == 2, "the loss of the old connection does not make the new healthy connection be closed (exactly one reconnect)")
	vapi.Check(atomic.LoadInt32(&s.queueLen) == 0, "the in-flight counter is back to zero")
	vapi.Reach("c11-close-notification")
}
