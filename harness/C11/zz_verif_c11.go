package transport

// C11 harness: calls keep succeeding across server-initiated connection closes.
// net.DialTimeout is redirected to VerifC11Dial, which returns an in-memory connection served by
// a scripted server goroutine: it answers every request it reads and closes the connection at a
// symbolic point. The whole client transport (NewTarsClient, Send, ReConnect, send, recv, close)
// is the real code.

import (
	"errors"
	"io"
	"net"
	"sync/atomic"
	"time"

	"github.com/TarsCloud/TarsGo/tars/protocol"
	"github.com/TarsCloud/TarsGo/tars/zzverif/vapi"
)

type c11Addr struct{}

func (c11Addr) Network() string { return "udp" }
func (c11Addr) String() string  { return "10.0.0.9:9" }

type c11Conn struct {
	id          int
	toClient    chan []byte   // server -> client data
	toServer    chan []byte   // client -> server data
	peerClosed  chan struct{} // closed when the server closes
	localClosed int32
	localCh     chan struct{} // closed by Close: like a real socket, a blocked Read returns then
	writesAfterClose int32
}

func (c *c11Conn) Read(b []byte) (int, error) {
	if atomic.LoadInt32(&c.localClosed) == 1 {
		return 0, net.ErrClosed
	}
	// like TCP: data sent before the close is delivered before the end of stream
	select {
	case d := <-c.toClient:
		return copy(b, d), nil
	default:
	}
	select {
	case d := <-c.toClient:
		return copy(b, d), nil
	case <-c.localCh:
		return 0, net.ErrClosed
	case <-c.peerClosed:
		select {
		case d := <-c.toClient:
			return copy(b, d), nil
		default:
		}
		return 0, io.EOF
	}
}

func (c *c11Conn) Write(b []byte) (int, error) {
	if atomic.LoadInt32(&c.localClosed) == 1 {
		atomic.AddInt32(&c.writesAfterClose, 1)
		return 0, net.ErrClosed
	}
	select {
	case <-c.peerClosed:
		return 0, errors.New("write: broken pipe")
	default:
	}
	d := make([]byte, len(b))
	copy(d, b)
	select {
	case c.toServer <- d:
		return len(b), nil
	case <-c.peerClosed:
		return 0, errors.New("write: broken pipe")
	}
}
func (c *c11Conn) Close() error {
	if atomic.CompareAndSwapInt32(&c.localClosed, 0, 1) {
		close(c.localCh)
	}
	return nil
}
func (c *c11Conn) LocalAddr() net.Addr                { return c11Addr{} }
func (c *c11Conn) RemoteAddr() net.Addr               { return c11Addr{} }
func (c *c11Conn) SetDeadline(t time.Time) error      { return nil }
func (c *c11Conn) SetReadDeadline(t time.Time) error  { return nil }
func (c *c11Conn) SetWriteDeadline(t time.Time) error { return nil }

var (
	c11Conns      []*c11Conn
	c11CloseAfter int // the first connection is closed by the server after this many replies
)

// scripted server: echo every request; the first connection is closed after c11CloseAfter replies
func c11Serve(c *c11Conn) {
	replies := 0
	for {
		if c.id == 0 && replies == c11CloseAfter {
			close(c.peerClosed)
			return
		}
		req := <-c.toServer
		c.toClient <- req
		replies++
		if c.id == 0 && replies == 1 && atomic.LoadInt32(&c11Marker) == 1 {
			c.toClient <- []byte{0, 0, 0, 5, 0xEE}
		}
	}
}

// redirect target of net.DialTimeout
var c11DialFail int32 // the next c11DialFail dials are refused (server unreachable)

func VerifC11Dial(network, address string, timeout time.Duration) (net.Conn, error) {
	if atomic.LoadInt32(&c11DialFail) > 0 {
		atomic.AddInt32(&c11DialFail, -1)
		return nil, errors.New("dial: connection refused")
	}
	c := &c11Conn{id: len(c11Conns), toClient: make(chan []byte, 4), toServer: make(chan []byte, 4), peerClosed: make(chan struct{}), localCh: make(chan struct{})}
	c11Conns = append(c11Conns, c)
	go c11Serve(c)
	return c, nil
}

type c11Proto struct {
	got int32
}

func (p *c11Proto) Recv(pkg []byte)                     { atomic.AddInt32(&p.got, 1) }
func (p *c11Proto) ParsePackage(buff []byte) (int, int) {
	if len(buff) >= 5 && buff[4] == 0xEE && c11Hold != nil {
		// a frame the protocol layer chokes on for a while (then rejects): keeps this connection's
		// receiver busy while the rest of the client moves on
		<-c11Hold
		return 0, PackageError
	}
	return protocol.TarsRequest(buff)
}

var (
	c11Hold   chan struct{} // non-nil: the receiver that parses the marker frame waits here
	c11Marker int32         // 1: the server sends the marker frame, unsolicited, after its first reply
)

func c11Req(tag byte) []byte { return []byte{0, 0, 0, 5, tag} }

// wait (on the virtual clock) until cond holds; returns the virtual milliseconds that passed
func c11Wait(cond func() bool, maxMs int) int {
	for ms := 0; ms < maxMs; ms += 10 {
		if cond() {
			return ms
		}
		time.Sleep(10 * time.Millisecond)
	}
	return maxMs
}

// ---- native replay support: a real loopback TCP server with the same script, and a log tap ----

type c11LogTap struct{ retries int32 }

func (w *c11LogTap) Write(v []byte) {
	if bytesContain(v, "send request retry") {
		atomic.AddInt32(&w.retries, 1)
	}
}
func (w *c11LogTap) NeedPrefix() bool { return true }

func bytesContain(b []byte, s string) bool {
	for i := 0; i+len(s) <= len(b); i++ {
		if string(b[i:i+len(s)]) == s {
			return true
		}
	}
	return false
}

var c11Accepted int32

func c11NativeServer() (string, func()) { return c11NativeServerAt("127.0.0.1:0") }

func c11NativeServerAt(at string) (string, func()) {
	ln, err := net.Listen("tcp", at)
	if err != nil {
		panic(err)
	}
	go func() {
		for {
			conn, err := ln.Accept()
			if err != nil {
				return
			}
			id := atomic.AddInt32(&c11Accepted, 1) - 1
			go func(conn net.Conn, id int32) {
				buf := make([]byte, 64)
				replies := 0
				for {
					if id == 0 && replies == c11CloseAfter {
						conn.Close()
						return
					}
					n, err := conn.Read(buf)
					if err != nil {
						return
					}
					conn.Write(buf[:n])
					replies++
					if id == 0 && replies == 1 && atomic.LoadInt32(&c11Marker) == 1 {
						time.Sleep(20 * time.Millisecond)
						conn.Write([]byte{0, 0, 0, 5, 0xEE})
					}
				}
			}(conn, id)
		}
	}()
	return ln.Addr().String(), func() { ln.Close() }
}

func VerifC11Reconnect() {
	c11Conns = nil
	c11CloseAfter = 1
	proto := &c11Proto{}
	addr, netw := "10.0.0.9:9", "udp"
	tap := &c11LogTap{}
	c11DialFail = 0
	stop := func() {}
	if !vapi.Engine() {
		addr, stop = c11NativeServer()
		defer func() { stop() }()
		netw = "tcp"
		TLOG.SetWriter(tap)
	}
	tc := NewTarsClient(addr, proto, &TarsClientConf{Proto: netw, QueueLen: 2, IdleTimeout: time.Hour, DialTimeout: time.Second})
	// k calls on the first connection; the server closes it after its k-th reply
	k := 1 + vapi.Choice("closeafter", 2)
	c11CloseAfter = k
	for i := 1; i <= k; i++ {
		vapi.Check(tc.Send(c11Req(byte(i))) == nil, "call on the first connection is accepted")
		want := int32(i)
		vapi.Check(c11Wait(func() bool { return atomic.LoadInt32(&proto.got) == want }, 3000) < 3000, "call on the first connection is answered")
	}
	// wait until the client has observed the close
	c11Wait(func() bool { tc.conn.connLock.Lock(); cl := tc.conn.isClosed; tc.conn.connLock.Unlock(); return cl }, 3000)
	tc.conn.connLock.Lock()
	observed := tc.conn.isClosed
	tc.conn.connLock.Unlock()
	// (an Assume(observed) here once made the whole harness vacuous for a change that never marks
	// the connection closed; whether or not the close was noticed, the next call must succeed)
	_ = observed
	// optionally the server is unreachable for one connection attempt (restart): that call may fail,
	// but once the server is reachable again calls must succeed
	if vapi.Bool("outage") {
		if vapi.Engine() {
			atomic.StoreInt32(&c11DialFail, 1)
			_ = tc.Send(c11Req(8))
		} else {
			stop()
			_ = tc.Send(c11Req(8))
			_, stop = c11NativeServerAt(addr)
		}
	}
	// the next call, issued after the close became observable (and with the server reachable)
	vapi.Check(tc.Send(c11Req(9)) == nil, "the call after the close is accepted")
	// engine: let everything run that can run without any timer firing; natively: a short grace period
	vapi.Quiesce()
	if !vapi.Engine() {
		time.Sleep(200 * time.Millisecond)
	}
	vapi.Check(atomic.LoadInt32(&proto.got) == int32(k)+1, "the call after the close is answered without waiting for any timer")
	dead := atomic.LoadInt32(&tap.retries)
	conns := int(atomic.LoadInt32(&c11Accepted))
	if vapi.Engine() {
		dead = 0
		for _, c := range c11Conns {
			dead += atomic.LoadInt32(&c.writesAfterClose)
		}
		conns = len(c11Conns)
	}
	vapi.Check(dead == 0, "no request is written to a connection already known to be dead")
	vapi.Check(conns == 2, "exactly one reconnect after the server closed the connection")
	tc.conn.connLock.Lock()
	closed := tc.conn.isClosed
	tc.conn.connLock.Unlock()
	vapi.Check(!closed, "the loss of the old connection does not make the new healthy connection be treated as closed")
	vapi.Reach("c11-reconnect")
}


// VerifC11IdleClose: the CLIENT closes the connection itself after its idle timeout (the sender's
// idle check) while the old receiver is still parked in Read; the next call reconnects. Whatever
// the old connection's goroutines still do afterwards (the receiver waking up late and tearing
// "its" connection down) must not touch the new connection: the call is answered, one reconnect,
// the new connection is not treated as closed.
func VerifC11IdleClose() {
	c11Conns = nil
	c11CloseAfter = 1000 // the server never closes here
	c11DialFail = 0
	// optionally the old receiver is kept busy (parked in the protocol layer on an unsolicited
	// frame) until after the reconnect, so that its tear-down of the old connection comes late
	late := vapi.Bool("latereceiver")
	c11Hold, c11Marker = nil, 0
	if late {
		c11Hold, c11Marker = make(chan struct{}), 1
	}
	proto := &c11Proto{}
	addr, netw := "10.0.0.9:9", "udp"
	stop := func() {}
	if !vapi.Engine() {
		addr, stop = c11NativeServer()
		defer func() { stop() }()
		netw = "tcp"
	}
	tc := NewTarsClient(addr, proto, &TarsClientConf{Proto: netw, QueueLen: 2, IdleTimeout: 1500 * time.Millisecond, DialTimeout: time.Second})
	vapi.Check(tc.Send(c11Req(1)) == nil, "first call is accepted")
	vapi.Check(c11Wait(func() bool { return atomic.LoadInt32(&proto.got) == 1 }, 3000) < 3000, "first call is answered")
	// idle for longer than the idle timeout: the sender's idle check closes the connection
	time.Sleep(3600 * time.Millisecond)
	vapi.Check(tc.Send(c11Req(9)) == nil, "the call after the idle close is accepted")
	vapi.Check(c11Wait(func() bool { return atomic.LoadInt32(&proto.got) == 2 }, 900) < 900, "the call after the idle close is answered well before any timeout")
	if late {
		close(c11Hold) // the old receiver wakes up now, finds its frame bad and tears its connection down
	}
	vapi.Quiesce()
	if !vapi.Engine() {
		time.Sleep(100 * time.Millisecond)
	}
	tc.conn.connLock.Lock()
	closed := tc.conn.isClosed
	tc.conn.connLock.Unlock()
	vapi.Check(!closed, "the loss of the old connection does not make the new healthy connection be treated as closed")
	// and the new connection really works
	vapi.Check(tc.Send(c11Req(10)) == nil, "a further call is accepted")
	vapi.Check(c11Wait(func() bool { return atomic.LoadInt32(&proto.got) == 3 }, 900) < 900, "a further call on the new connection is answered")
	conns := int(atomic.LoadInt32(&c11Accepted))
	if vapi.Engine() {
		conns = len(c11Conns)
	}
	vapi.Check(conns == 2, "exactly one reconnect after the idle close")
	vapi.Reach("c11-idle-close")
}
