package tars

// C09 harness: every call terminates by its deadline (plus the dial bound) and leaves nothing
// behind, whatever the server does. The real client path doInvoke -> AdapterProxy.Send ->
// TarsClient.Send -> ReConnect/send/recv -> AdapterProxy.Recv runs over an in-memory connection
// (net.DialTimeout redirected to VerifC09Dial) whose peer behaviour is symbolic; time is virtual.

import (
	"context"
	"errors"
	"io"
	"net"
	"sync/atomic"
	"time"

	"github.com/TarsCloud/TarsGo/tars/protocol"
	"github.com/TarsCloud/TarsGo/tars/protocol/codec"
	"github.com/TarsCloud/TarsGo/tars/protocol/res/endpointf"
	"github.com/TarsCloud/TarsGo/tars/protocol/res/requestf"
	"github.com/TarsCloud/TarsGo/tars/transport"
	"github.com/TarsCloud/TarsGo/tars/util/current"
	"github.com/TarsCloud/TarsGo/tars/util/endpoint"
	"github.com/TarsCloud/TarsGo/tars/zzverif/vapi"
)

type c09Mgr struct{ adp *AdapterProxy }

func (m *c09Mgr) SelectAdapterProxy(msg *Message) (*AdapterProxy, bool) { return m.adp, false }
func (m *c09Mgr) GetAllEndpoint() []*endpoint.Endpoint                  { return nil }
func (m *c09Mgr) preInvoke()                                            {}
func (m *c09Mgr) postInvoke()                                           {}
func (m *c09Mgr) addAliveEp(ep endpoint.Endpoint)                       {}

type c09Timeout struct{}

func (c09Timeout) Error() string   { return "i/o timeout" }
func (c09Timeout) Timeout() bool   { return true }
func (c09Timeout) Temporary() bool { return true }

type c09Addr struct{}

func (c09Addr) Network() string { return "udp" }
func (c09Addr) String() string  { return "10.0.0.9:9" }

// peer behaviours
const (
	c09Prompt  = iota // answer at once
	c09Late           // answer after the caller's deadline
	c09Silent         // never answer
	c09Close          // close the connection instead of answering
	c09Garbage        // answer with a length prefix out of range
	c09Refuse         // refuse the connection
	c09Stall          // never read: writes block until the write deadline
	c09Notify         // answer, then (first connection only) send the reconnect notification and close
)

var c09Notified, c09Accepted int32

// the server's close notification (what Protocol.GetCloseMsg produces): id 0, "_reconnect_"
func c09ReconnectMsg() []byte {
	rsp := requestf.ResponsePacket{IVersion: 1, IRequestId: 0, SResultDesc: reconnectMsg}
	b := codec.NewBuffer()
	_ = rsp.WriteTo(b)
	body := b.ToBytes()
	n := len(body) + 4
	return append([]byte{byte(n >> 24), byte(n >> 16), byte(n >> 8), byte(n)}, body...)
}

var (
	c09Mode     int
	c09DialCost time.Duration
	c09Dials    int32
)

type c09Conn struct {
	toClient    chan []byte
	toServer    chan []byte
	peerClosed  chan struct{}
	localClosed int32
	wdeadline   int64
}

func (c *c09Conn) Read(b []byte) (int, error) {
	if atomic.LoadInt32(&c.localClosed) == 1 {
		return 0, net.ErrClosed
	}
	select {
	case d := <-c.toClient:
		return copy(b, d), nil
	default:
	}
	select {
	case d := <-c.toClient:
		return copy(b, d), nil
	case <-c.peerClosed:
		select {
		case d := <-c.toClient:
			return copy(b, d), nil
		default:
		}
		return 0, io.EOF
	}
}
func (c *c09Conn) Write(b []byte) (int, error) {
	if atomic.LoadInt32(&c.localClosed) == 1 {
		return 0, net.ErrClosed
	}
	if c09Mode == c09Stall {
		// the peer does not read: the write blocks until its deadline
		dl := atomic.LoadInt64(&c.wdeadline)
		if dl == 0 {
			select {} // no write deadline configured: blocks forever
		}
		time.Sleep(time.Duration(dl - vapi.NowNs()))
		return 0, c09Timeout{}
	}
	d := make([]byte, len(b))
	copy(d, b)
	select {
	case c.toServer <- d:
		return len(b), nil
	case <-c.peerClosed:
		return 0, errors.New("write: broken pipe")
	}
}
func (c *c09Conn) Close() error                      { atomic.StoreInt32(&c.localClosed, 1); return nil }
func (c *c09Conn) LocalAddr() net.Addr               { return c09Addr{} }
func (c *c09Conn) RemoteAddr() net.Addr              { return c09Addr{} }
func (c *c09Conn) SetDeadline(t time.Time) error     { return nil }
func (c *c09Conn) SetReadDeadline(t time.Time) error { return nil }
func (c *c09Conn) SetWriteDeadline(t time.Time) error {
	atomic.StoreInt64(&c.wdeadline, vapi.NowNs()+int64(time.Until(t)))
	return nil
}

func c09Serve(c *c09Conn, lateBy time.Duration) {
	for {
		req := <-c.toServer
		var p requestf.RequestPacket
		_ = p.ReadFrom(codec.NewReader(req[4:]))
		switch c09Mode {
		case c09Prompt:
			c.toClient <- c08Reply(p.IRequestId, int8(p.IRequestId))
		case c09Late:
			time.Sleep(lateBy)
			c.toClient <- c08Reply(p.IRequestId, int8(p.IRequestId))
		case c09Silent:
		case c09Close:
			close(c.peerClosed)
			return
		case c09Garbage:
			c.toClient <- []byte{0x7f, 0xff, 0xff, 0xff, 1, 2, 3}
		case c09Notify:
			c.toClient <- c08Reply(p.IRequestId, int8(p.IRequestId))
			if atomic.AddInt32(&c09Notified, 1) == 1 {
				c.toClient <- c09ReconnectMsg()
				time.Sleep(200 * time.Millisecond)
				close(c.peerClosed)
				return
			}
		}
	}
}

// redirect target of net.DialTimeout
func VerifC09Dial(network, address string, timeout time.Duration) (net.Conn, error) {
	atomic.AddInt32(&c09Dials, 1)
	if c09DialCost > 0 {
		time.Sleep(c09DialCost)
	}
	if c09Mode == c09Refuse {
		return nil, errors.New("dial: connection refused")
	}
	c := &c09Conn{toClient: make(chan []byte, 4), toServer: make(chan []byte, 4), peerClosed: make(chan struct{})}
	go c09Serve(c, 150*time.Millisecond)
	return c, nil
}

const (
	c09CallTimeout = 100 * time.Millisecond
	c09DialTimeout = 40 * time.Millisecond
	c09Slack       = 10 * time.Millisecond
)

func c09Setup(queueLen int, writeTimeout time.Duration) (*ServantProxy, *AdapterProxy) {
	comm := &Communicator{Client: &clientConfig{ObjQueueMax: 100, ClientReadTimeout: 100 * time.Millisecond}, app: &application{allFilters: &filters{}}}
	pt := &endpointf.EndpointF{Host: "10.0.0.9", Port: 9, Istcp: 0}
	conf := &transport.TarsClientConf{Proto: "udp", QueueLen: queueLen, ReadTimeout: 100 * time.Millisecond, WriteTimeout: writeTimeout, DialTimeout: c09DialTimeout, IdleTimeout: time.Hour}
	adp := &AdapterProxy{point: pt, conf: conf, comm: comm, status: true}
	adp.tarsClient = transport.NewTarsClient("10.0.0.9:9", adp, conf)
	s := &ServantProxy{name: "obj", comm: comm, proto: &protocol.TarsProtocol{}, timeout: int(c09CallTimeout / time.Millisecond), version: 1}
	s.manager = &c09Mgr{adp}
	adp.servantProxy = s
	return s, adp
}

// native replay of VerifC09Single: a real loopback TCP server with the same peer behaviours
func c09NativeServer() (addr string) {
	ln, err := net.Listen("tcp", "127.0.0.1:0")
	if err != nil {
		panic(err)
	}
	addr = ln.Addr().String()
	if c09Mode == c09Refuse {
		ln.Close() // nothing listens there any more: the dial is refused
		return
	}
	go func() {
		for {
			c, err := ln.Accept()
			if err != nil {
				return
			}
			atomic.AddInt32(&c09Accepted, 1)
			go func(c net.Conn) {
				var buf []byte
				tmp := make([]byte, 4096)
				for {
					n, err := c.Read(tmp)
					if err != nil {
						return
					}
					buf = append(buf, tmp[:n]...)
					for len(buf) >= 4 {
						l := int(buf[0])<<24 | int(buf[1])<<16 | int(buf[2])<<8 | int(buf[3])
						if l < 4 || len(buf) < l {
							break
						}
						var p requestf.RequestPacket
						_ = p.ReadFrom(codec.NewReader(buf[4:l]))
						buf = buf[l:]
						switch c09Mode {
						case c09Prompt:
							c.Write(c08Reply(p.IRequestId, int8(p.IRequestId)))
						case c09Late:
							go func(id int32) {
								time.Sleep(150 * time.Millisecond)
								c.Write(c08Reply(id, int8(id)))
							}(p.IRequestId)
						case c09Silent:
						case c09Close:
							c.Close()
							return
						case c09Garbage:
							c.Write([]byte{0x7f, 0xff, 0xff, 0xff, 1, 2, 3})
						case c09Notify:
							c.Write(c08Reply(p.IRequestId, int8(p.IRequestId)))
							if atomic.AddInt32(&c09Notified, 1) == 1 {
								c.Write(c09ReconnectMsg())
								time.Sleep(200 * time.Millisecond)
								c.Close()
								return
							}
						}
					}
				}
			}(c)
		}
	}()
	return
}

var c09T0 = time.Now()

// virtual nanoseconds in the engine, real ones natively
func c09Now() int64 {
	if vapi.Engine() {
		return vapi.NowNs()
	}
	return int64(time.Since(c09T0))
}

var c09Payload int // native stall replay: request size that fills the loopback socket buffers

type c09Call struct {
	id      int32
	err     error
	resp    *requestf.ResponsePacket
	tookNs  int64
	done    int32
}

func c09Invoke(s *ServantProxy, c *c09Call) {
	req := &requestf.RequestPacket{IVersion: 1, IRequestId: s.genRequestID(), SServantName: "obj", SFuncName: "f", ITimeout: int32(c09CallTimeout / time.Millisecond)}
	if c09Payload > 0 {
		req.SBuffer = make([]int8, c09Payload)
	}
	c.id = req.IRequestId
	msg := &Message{Req: req, Ser: s}
	msg.Init()
	ctx, cancel := context.WithTimeout(current.ContextWithClientCurrent(context.Background()), c09CallTimeout)
	t0 := c09Now()
	c.err = s.doInvoke(ctx, msg, c09CallTimeout)
	c.tookNs = c09Now() - t0
	cancel()
	c.resp = msg.Resp
	atomic.StoreInt32(&c.done, 1)
}

func c09Check(s *ServantProxy, adp *AdapterProxy, c *c09Call) {
	slack := c09Slack
	if !vapi.Engine() {
		slack = 400 * time.Millisecond // real scheduling slack
	}
	vapi.Check(time.Duration(c.tookNs) <= c09CallTimeout+c09DialTimeout+slack, "the call returns no later than its deadline plus the dial bound")
	if c.err == nil {
		vapi.Check(c.resp != nil && c.resp.IRequestId == c.id, "a successful call holds its own reply")
	}
	_, still := adp.resp.Load(c.id)
	vapi.Check(!still, "the pending-reply table is back to its previous content")
}

// VerifC09Single: one call against every peer behaviour; then a second call on the same client.
func VerifC09Single() {
	msgID = 10
	c09Mode = vapi.Choice("peer", 6)
	c09DialCost = time.Duration(vapi.Choice("dialcost", 2)) * 30 * time.Millisecond
	c09Dials = 0
	s, adp := c09Setup(2, 50*time.Millisecond)
	if !vapi.Engine() {
		adp.conf.Proto = "tcp"
		adp.tarsClient = transport.NewTarsClient(c09NativeServer(), adp, adp.conf)
	}
	var c1 c09Call
	c09Invoke(s, &c1)
	c09Check(s, adp, &c1)
	switch c09Mode {
	case c09Prompt:
		vapi.Check(c1.err == nil, "a prompt reply completes the call")
	default:
		vapi.Check(c1.err != nil, "without a timely reply the call fails with an error")
	}
	vapi.Check(atomic.LoadInt32(&s.queueLen) == 0, "the in-flight counter is back to zero")
	// let a late reply (if any) arrive: it must be discarded without affecting anything
	time.Sleep(300 * time.Millisecond)
	vapi.Quiesce()
	vapi.Check(atomic.LoadInt32(&s.queueLen) == 0, "a late reply does not disturb the counters")
	// a later call on the same proxy, with a server that now answers at once
	if c09Mode != c09Refuse {
		c09Mode = c09Prompt
	}
	var c2 c09Call
	c09Invoke(s, &c2)
	c09Check(s, adp, &c2)
	if c09Mode == c09Prompt {
		vapi.Check(c2.err == nil, "a later call is not affected by the earlier failure or its late reply")
	}
	vapi.Reach("c09-single")
}

// VerifC09Stall: the server stops reading: with a full send queue a second caller must still
// return by its own deadline.
func VerifC09Stall() {
	msgID = 10
	c09Mode = c09Stall
	c09DialCost = 0
	s, adp := c09Setup(1, 3*time.Second)
	if !vapi.Engine() {
		// native replay: a real loopback server that accepts and never reads, and requests large
		// enough to fill the socket buffers so that the sender's Write blocks
		ln, err := net.Listen("tcp", "127.0.0.1:0")
		if err != nil {
			panic(err)
		}
		defer ln.Close()
		go func() {
			for {
				c, err := ln.Accept()
				if err != nil {
					return
				}
				_ = c // never read, never close
			}
		}()
		adp.conf.Proto = "tcp"
		adp.tarsClient = transport.NewTarsClient(ln.Addr().String(), adp, adp.conf)
		c09Payload = 8 << 20
	}
	var calls [3]c09Call
	for i := 1; i < 3; i++ {
		i := i
		go c09Invoke(s, &calls[i])
	}
	c09Invoke(s, &calls[0])
	for i := 1; i < 3; i++ {
		for atomic.LoadInt32(&calls[i].done) == 0 {
			time.Sleep(10 * time.Millisecond)
		}
	}
	for i := 0; i < 3; i++ {
		vapi.Check(calls[i].err != nil, "a call to a stalled server fails")
		c09Check(s, adp, &calls[i])
	}
	vapi.Reach("c09-stall")
}

// VerifC09Invoke: the effective deadline as derived by TarsInvoke itself (the caller's context
// deadline if it has one, otherwise the per-call timeout, otherwise the configured timeout),
// against a server that never answers: the call fails no later than that deadline plus the dial
// bound, and nothing is left behind. Client filters of every kind that pass the call through
// must not change that.
func VerifC09Invoke() {
	msgID = 10
	c09Mode = c09Silent
	c09DialCost = 0
	s, adp := c09Setup(2, 50*time.Millisecond)
	if !vapi.Engine() {
		adp.conf.Proto = "tcp"
		adp.tarsClient = transport.NewTarsClient(c09NativeServer(), adp, adp.conf)
	}
	// (values far enough apart that a wrongly derived deadline also shows under real scheduling)
	cfgs := []int{100, 1000}
	eff := cfgs[vapi.Choice("configured", 2)]
	s.timeout = eff
	ctx := current.ContextWithClientCurrent(context.Background())
	if vapi.Bool("percall") {
		pcs := []int{50, 600}
		eff = pcs[vapi.Choice("pc", 2)]
		current.SetClientTimeout(ctx, eff)
	}
	if vapi.Bool("ctxdeadline") {
		dls := []int{80, 700}
		eff = dls[vapi.Choice("dl", 2)]
		var cancel context.CancelFunc
		ctx, cancel = context.WithTimeout(ctx, time.Duration(eff)*time.Millisecond)
		defer cancel()
	}
	switch vapi.Choice("filter", 3) {
	case 1:
		s.comm.app.allFilters.registerClientFilter(func(ctx context.Context, msg *Message, invoke Invoke, timeout time.Duration) error {
			return invoke(ctx, msg, timeout)
		})
	case 2:
		s.comm.app.allFilters.UseClientFilterMiddleware(func(next ClientFilter) ClientFilter {
			return func(ctx context.Context, msg *Message, invoke Invoke, timeout time.Duration) error {
				return next(ctx, msg, invoke, timeout)
			}
		})
	}
	resp := new(requestf.ResponsePacket)
	t0 := c09Now()
	err := s.TarsInvoke(ctx, 0, "f", nil, nil, nil, resp)
	took := time.Duration(c09Now() - t0)
	slack := c09Slack
	if !vapi.Engine() {
		slack = 250 * time.Millisecond
	}
	vapi.Check(err != nil, "a call to a silent server fails")
	vapi.Check(took <= time.Duration(eff)*time.Millisecond+c09DialTimeout+slack, "the call returns no later than its effective deadline plus the dial bound")
	vapi.Check(atomic.LoadInt32(&s.queueLen) == 0, "the in-flight counter is back to zero")
	n := 0
	adp.resp.Range(func(k, v interface{}) bool { n++; return true })
	vapi.Check(n == 0, "the pending-reply table is back to its previous content")
	vapi.Reach("c09-invoke")
}
