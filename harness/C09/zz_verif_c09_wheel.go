package rtimer

// C09, timer layer: the deadline clause rests on rtimer.After(T) firing no later than T. The
// call-path harnesses replace rtimer.After by a virtual timer; here the REAL time wheel
// (NewTimeWheel(T/20, 21), its ticker goroutine and TimeWheel.After - exactly what rtimer.After
// builds) runs on the virtual clock: a timer registered at any moment (after any number of ticks,
// i.e. any wheel position including the wrap-around, and at any phase within a tick) fires within
// [0.9 T, T].

import (
	"time"

	"github.com/TarsCloud/TarsGo/tars/zzverif/vapi"
)

var c09WheelT0 = time.Now()

func c09WheelNow() int64 {
	if vapi.Engine() {
		return vapi.NowNs()
	}
	return int64(time.Since(c09WheelT0))
}

func VerifC09TimeWheel() {
	T := []time.Duration{20 * time.Millisecond, 100 * time.Millisecond, time.Second}[vapi.Choice("T", 3)]
	tick := T / 20
	tw := NewTimeWheel(tick, 21)
	k := vapi.Choice("ticks", 23)
	phase := []time.Duration{0, tick / 2, tick - time.Microsecond}[vapi.Choice("phase", 3)]
	if d := time.Duration(k)*tick + phase; d > 0 {
		time.Sleep(d)
	}
	t0 := c09WheelNow()
	c := tw.After(T)
	<-c
	el := time.Duration(c09WheelNow() - t0)
	slack := time.Duration(0)
	if !vapi.Engine() {
		slack = 30 * time.Millisecond // real scheduling noise
	}
	vapi.Check(el <= T+slack, "the time wheel fires no later than T")
	vapi.Check(el >= T-2*tick-slack, "the time wheel fires no earlier than 0.9 T")
	// a second timer on the same wheel, registered right away
	t1 := c09WheelNow()
	<-tw.After(T)
	el = time.Duration(c09WheelNow() - t1)
	vapi.Check(el <= T+slack, "the time wheel fires no later than T")
	tw.Stop()
	vapi.Reach("c09-timewheel")
}

// VerifC09AfterTwoTimeouts: the package-level rtimer.After itself (one wheel per timeout value,
// kept in a map): with a long and a short timeout in use in one process, in either order of first
// use, each timer still fires within [0.9 T, T] of ITS timeout.
func VerifC09AfterTwoTimeouts() {
	long, short := time.Second, 50*time.Millisecond
	slack := time.Duration(0)
	if !vapi.Engine() {
		slack = 30 * time.Millisecond
	}
	var la <-chan struct{}
	if vapi.Bool("longfirst") {
		la = After(long)
	}
	// let the wheel(s) run for a while
	time.Sleep(time.Duration(vapi.Choice("ticks", 5)) * 70 * time.Millisecond)
	t0 := c09WheelNow()
	<-After(short)
	el := time.Duration(c09WheelNow() - t0)
	vapi.Check(el <= short+slack, "rtimer.After(T) fires no later than T, whatever other timeouts are in use")
	vapi.Check(el >= short-short/10-slack, "rtimer.After(T) fires no earlier than 0.9 T")
	if la == nil {
		la = After(long)
	}
	t1 := c09WheelNow()
	<-la
	el = time.Duration(c09WheelNow() - t1)
	vapi.Check(el <= long+slack, "rtimer.After(T) fires no later than T, whatever other timeouts are in use")
	vapi.Reach("c09-after-two-timeouts")
}
