package endpoint

// C18 harnesses: endpoint strings parse to the endpoint they describe; registry conversion
// round trip; cache-key agreement; no string crashes the parser.

import (
	"github.com/TarsCloud/TarsGo/tars/protocol/res/endpointf"
	"github.com/TarsCloud/TarsGo/tars/zzverif/vapi"
)

// symbolic host of 1..3 bytes from [a-z0-9.]
func c18Host() string {
	n := 1 + vapi.Len("hostlen", 2)
	b := vapi.Bytes("host", n)
	for _, c := range b {
		vapi.Assume(vapi.Or(vapi.Or(vapi.InRange(c, 'a', 'z'), vapi.InRange(c, '0', '9')), c == '.'))
	}
	return string(b)
}

// symbolic decimal literal of 1..maxDigits digits, optional '-'; returns text and the value
// computed by the harness's own reference atoi.
func c18Num(name string, maxDigits int, allowNeg bool) (string, int64) {
	n := 1 + vapi.Len(name+"len", maxDigits-1)
	d := vapi.Bytes(name, n)
	// canonical decimal: no leading zero (the flag package reads a leading 0 as an octal prefix)
	vapi.Assume(vapi.Or(n == 1, d[0] != '0'))
	var v int64
	for _, c := range d {
		vapi.Assume(vapi.InRange(c, '0', '9'))
		v = v*10 + int64(c-'0')
	}
	s := string(d)
	if allowNeg && vapi.Bool(name+"neg") {
		s = "-" + s
		v = -v
	}
	return s, v
}

func c18Proto() (string, string, int32) {
	switch vapi.Choice("proto", 3) {
	case 0:
		return "tcp", "tcp", 1
	case 1:
		return "udp", "udp", 0
	}
	return "ssl", "tcp", 2
}

func c18WantWeight(w, wt int64) int64 {
	if wt != 0 && (w == -1 || w > 100) {
		return 100
	}
	return w
}

// VerifC18Values: canonical order, every numeric option with symbolic multi-digit values.
func VerifC18Values()     { c18Values(2); vapi.Reach("c18-values") }
func VerifC18ValuesLong() { c18Values(3); vapi.Reach("c18-values-long") }

func c18Values(md int) {
	ps, wantProto, wantTcp := c18Proto()
	host := c18Host()
	port, pv := c18Num("port", md, false)
	tmo, tv := c18Num("tmo", md, false)
	// tokens may be separated by more than one blank, or by a tab
	sep := []string{" ", "  ", "\t"}[vapi.Choice("sep", 3)]
	s := ps + " -h " + host + sep + "-p " + port + " -t " + tmo
	var gv, qv, wv, vv, ev int64 = 0, 0, -1, 0, 0
	switch vapi.Choice("extra", 6) {
	case 0:
	case 1:
		var t string
		t, gv = c18Num("grid", 2, true)
		s += " -g " + t
	case 2:
		var t string
		t, qv = c18Num("qos", 2, true)
		s += " -q " + t
	case 3:
		var t, u string
		t, wv = c18Num("weight", md, true)
		u, vv = c18Num("wtype", 1, false)
		s += " -w " + t + " -v " + u
	case 4:
		var u string
		u, vv = c18Num("wtype", 1, false)
		s += " -v " + u
	case 5:
		var t string
		t, ev = c18Num("auth", 1, false)
		s += " -e " + t
	}
	e := Parse(s)
	vapi.Check(e.Proto == wantProto && e.Istcp == wantTcp, "protocol and transport kind")
	vapi.Check(e.Host == host, "host")
	vapi.Check(int64(e.Port) == pv, "port")
	vapi.Check(int64(e.Timeout) == tv, "timeout")
	vapi.Check(int64(e.Grid) == gv && int64(e.Qos) == qv, "grid and qos")
	vapi.Check(int64(e.WeightType) == vv, "weight type")
	vapi.Check(int64(e.Weight) == c18WantWeight(wv, vv), "weight with normalisation")
	vapi.Check(int64(e.AuthType) == ev, "auth type")
	vapi.Check(e.Bind == "" && e.SetId == "", "bind and set id defaults")
	vapi.Check(e.Key == e.String(), "key is the canonical string")
}

// VerifC18Canonical: the canonical string (String(), which is also the cache key) is itself a
// textual form: it parses back to the protocol, host, port and timeout it was made from - also
// for the boundary values 0 and 1. (Values are per-path constants here: the engine renders
// undetermined symbolic integers opaquely, so a decimal round trip needs determined values.)
func VerifC18Canonical() {
	e := Endpoint{Proto: []string{"tcp", "udp"}[vapi.Choice("proto", 2)], Host: "h.example",
		Port:    []int32{0, 1, 80, 65535}[vapi.Choice("port", 4)],
		Timeout: []int32{0, 1, 3000, 2147483647}[vapi.Choice("timeout", 4)]}
	e2 := Parse(e.String())
	vapi.Check(e2.Proto == e.Proto && e2.Host == e.Host && e2.Port == e.Port && e2.Timeout == e.Timeout, "the canonical string parses back to the same protocol, host, port and timeout")
	vapi.Check(e2.Key == e.String(), "the key of the parsed endpoint is the canonical string it was parsed from")
	vapi.Reach("c18-canonical")
}

// VerifC18Defaults: only the protocol (and optionally the host): documented defaults.
func VerifC18Defaults() {
	ps, wantProto, wantTcp := c18Proto()
	s := ps
	host := ""
	if vapi.Bool("withhost") {
		host = c18Host()
		s += " -h " + host
	}
	e := Parse(s)
	vapi.Check(e.Proto == wantProto && e.Istcp == wantTcp, "protocol")
	vapi.Check(e.Host == host && e.Port == 0 && e.Timeout == 3000, "defaults: port 0, timeout 3000")
	vapi.Check(e.Grid == 0 && e.Qos == 0 && e.Weight == -1 && e.WeightType == 0 && e.AuthType == 0 && e.Bind == "", "defaults of optional fields")
	vapi.Reach("c18-defaults")
}

// VerifC18Order: up to 3 distinct options in any order with 1-2 blanks between tokens.
func VerifC18Order()     { c18Order(2); vapi.Reach("c18-order") }
func VerifC18OrderLong() { c18Order(3); vapi.Reach("c18-order-long") }

func c18Order(maxk int) {
	ps, wantProto, wantTcp := c18Proto()
	names := []string{"h", "p", "t", "g", "q", "w", "v", "e", "b"}
	var sval [9]string
	var ival [9]int64
	ival[2], ival[5] = 3000, -1
	k := vapi.Choice("k", maxk+1)
	used := [9]bool{}
	dbl := vapi.Choice("dbl", 7) // which separator is doubled (6 = none)
	s := ps
	sep := 0
	for i := 0; i < k; i++ {
		o := vapi.Choice("opt", 9)
		vapi.Assume(!used[o])
		used[o] = true
		s += " "
		if sep == dbl {
			s += " "
		}
		sep++
		s += "-" + names[o] + " "
		if sep == dbl {
			s += " "
		}
		sep++
		if o == 0 || o == 8 {
			sval[o] = c18Host()
			s += sval[o]
		} else {
			d := vapi.Byte("digit")
			vapi.Assume(vapi.InRange(d, '0', '9'))
			ival[o] = int64(d - '0')
			s += string([]byte{d})
		}
	}
	e := Parse(s)
	vapi.Check(e.Proto == wantProto && e.Istcp == wantTcp, "order: protocol")
	vapi.Check(e.Host == sval[0] && e.Bind == sval[8], "order: host and bind")
	vapi.Check(int64(e.Port) == ival[1] && int64(e.Timeout) == ival[2], "order: port and timeout")
	vapi.Check(int64(e.Grid) == ival[3] && int64(e.Qos) == ival[4], "order: grid and qos")
	vapi.Check(int64(e.WeightType) == ival[6] && int64(e.AuthType) == ival[7], "order: weight type and auth type")
	vapi.Check(int64(e.Weight) == c18WantWeight(ival[5], ival[6]), "order: weight")
}

// VerifC18Convert: registry structure round trip for arbitrary field values.
func VerifC18Convert() {
	e := Endpoint{
		Host: c18Host(), Port: vapi.Int32("port"), Timeout: vapi.Int32("tmo"), Istcp: int32(vapi.Choice("istcp", 3)),
		Grid: vapi.Int32("grid"), Qos: vapi.Int32("qos"), Weight: vapi.Int32("w"), WeightType: vapi.Int32("wt"),
		AuthType: vapi.Int32("auth"), SetId: vapi.String("setid", vapi.Len("setidlen", 2)),
	}
	f := Endpoint2tars(e)
	b := Tars2endpoint(f)
	vapi.Check(b.Host == e.Host && b.Port == e.Port && b.Timeout == e.Timeout, "convert: host, port, timeout")
	vapi.Check(b.Istcp == e.Istcp && b.Grid == e.Grid && b.Qos == e.Qos, "convert: transport kind, grid, qos")
	vapi.Check(b.Weight == e.Weight && b.WeightType == e.WeightType && b.AuthType == e.AuthType, "convert: weight, weight type, auth type")
	vapi.Check(b.SetId == e.SetId, "convert: set id")
	vapi.Check(b.IsTcp() == (e.Istcp != 0) && b.IsUdp() == (e.Istcp == 0) && b.IsSSL() == (e.Istcp == 2), "convert: kind predicates")
	vapi.Reach("c18-convert")
}

// VerifC18Key: the same endpoint described by an address string and by the registry gets the same key.
func VerifC18Key() {
	ps, wantProto, wantTcp := c18Proto()
	host := c18Host()
	port, pv := c18Num("port", 3, false)
	tmo, tv := c18Num("tmo", 3, false)
	a := Parse(ps + " -h " + host + " -p " + port + " -t " + tmo)
	b := Tars2endpoint(endpointf.EndpointF{Host: host, Port: int32(pv), Timeout: int32(tv), Istcp: wantTcp})
	vapi.Check(a.Proto == b.Proto && a.Proto == wantProto, "key: protocol constituent")
	vapi.Check(a.Host == b.Host && a.Port == b.Port && a.Timeout == b.Timeout, "key: host, port, timeout constituents")
	vapi.Check(a.Key == b.Key, "key: direct and registry descriptions agree")
	vapi.Check(a.HashKey() == b.HashKey(), "key: hash key agrees")
	vapi.Reach("c18-key")
}

// VerifC18Raw: no string makes the parser crash (any uncaught panic is a violation).
func VerifC18Raw()     { c18Raw(3); vapi.Reach("c18-raw") }
func VerifC18RawLong() { c18Raw(4); vapi.Reach("c18-raw-long") }

func c18Raw(max int) {
	n := vapi.Len("n", max)
	s := vapi.String("s", n)
	_ = Parse(s)
}

// VerifC18ListElem: the elements obtained by splitting an address list on ':' (as the endpoint
// manager does), including the empty element after a trailing separator.
func VerifC18ListElem() {
	switch vapi.Choice("elem", 4) {
	case 0:
		_ = Parse("")
	case 1:
		_ = Parse(" ")
	case 2:
		_ = Parse("tcp")
	case 3:
		_ = Parse("tc")
	}
	vapi.Reach("c18-listelem")
}
