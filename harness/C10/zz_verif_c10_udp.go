package transport

// C10 over UDP: the real udpHandler.Handle / handleUDPAddr / TarsServer.invoke serve a burst of
// 2..3 datagrams from different senders (worker pool of one, or one goroutine per datagram): each
// two-way datagram is answered exactly once, to ITS sender, with the reply that the protocol
// produced for ITS bytes; one-way datagrams are not answered. In the engine the socket is a
// script ((*net.UDPConn).ReadFromUDP / WriteToUDP are redirected to the functions below);
// natively a real loopback UDP socket and real senders are used.

import (
	"context"
	"net"
	"sync"
	"sync/atomic"
	"time"

	"github.com/TarsCloud/TarsGo/tars/util/current"
	"github.com/TarsCloud/TarsGo/tars/util/gpool"
	"github.com/TarsCloud/TarsGo/tars/zzverif/vapi"
)

type c10Dgram struct {
	id     byte
	oneway bool
}

type c10UDPReply struct {
	port int
	data []byte
}

var (
	c10UDPMu     sync.Mutex
	c10UDPIn     []c10Dgram
	c10UDPPos    int
	c10UDPOut    []c10UDPReply
	c10UDPServer *TarsServer
)

type c10UDPTimeout struct{}

func (c10UDPTimeout) Error() string   { return "i/o timeout" }
func (c10UDPTimeout) Timeout() bool   { return true }
func (c10UDPTimeout) Temporary() bool { return true }

func c10DgramBytes(d c10Dgram) []byte {
	ow := byte(0)
	if d.oneway {
		ow = 1
	}
	return []byte{0, 0, 0, 6, d.id, ow}
}

// redirect target of (*net.UDPConn).ReadFromUDP
func VerifC10ReadFromUDP(c *net.UDPConn, b []byte) (int, *net.UDPAddr, error) {
	c10UDPMu.Lock()
	defer c10UDPMu.Unlock()
	if c10UDPPos < len(c10UDPIn) {
		n := copy(b, c10DgramBytes(c10UDPIn[c10UDPPos]))
		addr := &net.UDPAddr{Port: 1000 + c10UDPPos}
		c10UDPPos++
		return n, addr, nil
	}
	// nothing more will arrive: the server is being closed, the read times out
	atomic.StoreInt32(&c10UDPServer.isClosed, 1)
	return 0, nil, c10UDPTimeout{}
}

// redirect target of (*net.UDPConn).WriteToUDP
func VerifC10WriteToUDP(c *net.UDPConn, b []byte, addr *net.UDPAddr) (int, error) {
	d := make([]byte, len(b))
	copy(d, b)
	c10UDPMu.Lock()
	c10UDPOut = append(c10UDPOut, c10UDPReply{addr.Port, d})
	c10UDPMu.Unlock()
	return len(b), nil
}

// plays tars.Protocol.Invoke: packet type into the context, reply echoes the request id it SAW
type c10UDPProto struct {
	calls int32
}

func (p *c10UDPProto) Invoke(ctx context.Context, pkg []byte) []byte {
	atomic.AddInt32(&p.calls, 1)
	id, ow := byte(0), byte(0)
	if len(pkg) >= 6 {
		id, ow = pkg[4], pkg[5]
	}
	current.SetPacketTypeFromContext(ctx, int8(ow))
	return []byte{0, 0, 0, 6, 'R', id}
}
func (p *c10UDPProto) ParsePackage(buff []byte) (int, int) { return 0, PackageLess }
func (p *c10UDPProto) InvokeTimeout(pkg []byte) []byte     { return []byte{0, 0, 0, 5, 'T'} }
func (p *c10UDPProto) GetCloseMsg() []byte                 { return nil }
func (p *c10UDPProto) DoClose(ctx context.Context)         {}

func VerifC10UDP() {
	n := 2 + vapi.Choice("datagrams", 2)
	c10UDPIn, c10UDPPos, c10UDPOut = nil, 0, nil
	for i := 0; i < n; i++ {
		c10UDPIn = append(c10UDPIn, c10Dgram{id: byte('a' + i), oneway: vapi.Bool("oneway")})
	}
	pool := vapi.Choice("pool", 2)
	proto := &c10UDPProto{}
	cfg := &TarsServerConf{Proto: "udp", Address: "127.0.0.1:0", MaxInvoke: int32(pool), QueueCap: 4}
	ts := &TarsServer{protocol: proto, config: cfg}
	c10UDPServer = ts
	u := &udpHandler{config: cfg, server: ts, conn: &net.UDPConn{}}
	if pool > 0 {
		u.pool = gpool.NewPool(pool, 4)
	}
	var senders []*net.UDPConn
	if !vapi.Engine() {
		// native: a real socket; one real sender per datagram, all sent back to back
		la, _ := net.ResolveUDPAddr("udp", "127.0.0.1:0")
		conn, err := net.ListenUDP("udp", la)
		if err != nil {
			panic(err)
		}
		u.conn = conn
		go func() { _ = u.Handle() }()
		for _, d := range c10UDPIn {
			sc, err := net.DialUDP("udp", nil, conn.LocalAddr().(*net.UDPAddr))
			if err != nil {
				panic(err)
			}
			senders = append(senders, sc)
			_, _ = sc.Write(c10DgramBytes(d))
		}
		for i, sc := range senders {
			buf := make([]byte, 64)
			for {
				_ = sc.SetReadDeadline(time.Now().Add(300 * time.Millisecond))
				k, err := sc.Read(buf)
				if err != nil {
					break
				}
				c10UDPOut = append(c10UDPOut, c10UDPReply{1000 + i, append([]byte{}, buf[:k]...)})
			}
		}
		atomic.StoreInt32(&ts.isClosed, 1)
		conn.Close()
	} else {
		_ = u.Handle()
		vapi.Quiesce()
	}
	c10UDPMu.Lock()
	out := c10UDPOut
	c10UDPMu.Unlock()
	vapi.Check(int(atomic.LoadInt32(&proto.calls)) == n, "every datagram is handed to the protocol exactly once")
	for i, d := range c10UDPIn {
		cnt, okID := 0, true
		for _, r := range out {
			if r.port == 1000+i {
				cnt++
				if len(r.data) < 6 || r.data[5] != d.id {
					okID = false
				}
			}
		}
		if d.oneway {
			vapi.Check(cnt == 0, "a one-way datagram is not answered")
		} else {
			vapi.Check(cnt == 1, "a two-way datagram is answered exactly once, to its sender")
			vapi.Check(okID, "the reply sent to a sender is the one produced for its own request")
		}
	}
	vapi.Reach("c10-udp")
}
