package transport

// C10 harness (transport layer): for every request handed to handleConn the server writes
// exactly one response if it is two-way and none if it is one-way, in every worker-pool /
// handle-timeout configuration; an over-long handler is answered with the timeout response.

import (
	"context"
	"net"
	"time"

	"github.com/TarsCloud/TarsGo/tars/util/current"
	"github.com/TarsCloud/TarsGo/tars/util/gpool"
	"github.com/TarsCloud/TarsGo/tars/zzverif/vapi"
)

type c10Addr struct{}

func (c10Addr) Network() string { return "tcp" }
func (c10Addr) String() string  { return "10.0.0.1:4242" }

type c10Conn struct {
	writes [][]byte
}

func (c *c10Conn) Read(b []byte) (int, error)         { return 0, net.ErrClosed }
func (c *c10Conn) Write(b []byte) (int, error)        { c.writes = append(c.writes, b); return len(b), nil }
func (c *c10Conn) Close() error                       { return nil }
func (c *c10Conn) LocalAddr() net.Addr                { return c10Addr{} }
func (c *c10Conn) RemoteAddr() net.Addr               { return c10Addr{} }
func (c *c10Conn) SetDeadline(t time.Time) error      { return nil }
func (c *c10Conn) SetReadDeadline(t time.Time) error  { return nil }
func (c *c10Conn) SetWriteDeadline(t time.Time) error { return nil }

// protocol stub with the contract of tars.Protocol: records the packet type in the context
// before running the implementation, which takes `dur` of (virtual) time
type c10Proto struct {
	oneway bool
	dur    time.Duration
	calls  int
}

func (p *c10Proto) Invoke(ctx context.Context, pkg []byte) []byte {
	p.calls++
	// contract of tars.Protocol.Invoke (proved by VerifC10Invoke): the packet type is in the
	// context before the implementation runs
	pt := int8(0)
	if p.oneway {
		pt = 1
	}
	current.SetPacketTypeFromContext(ctx, pt)
	if p.dur > 0 {
		time.Sleep(p.dur)
	}
	return []byte{0, 0, 0, 5, 'N'}
}
func (p *c10Proto) ParsePackage(buff []byte) (int, int) { return 0, PackageLess }
func (p *c10Proto) InvokeTimeout(pkg []byte) []byte     { return []byte{0, 0, 0, 5, 'T'} }
func (p *c10Proto) GetCloseMsg() []byte                 { return nil }
func (p *c10Proto) DoClose(ctx context.Context)         {}

func VerifC10HandleConn() {
	oneway := vapi.Bool("oneway")
	// wide margins so that the native replay (real time) follows the same branch
	ht := time.Duration(vapi.Choice("handletimeout", 2)) * 100 * time.Millisecond // 0 or 100 ms
	dur := []time.Duration{0, 20 * time.Millisecond, 300 * time.Millisecond}[vapi.Choice("dur", 3)]
	pool := vapi.Choice("pool", 2)
	proto := &c10Proto{oneway: oneway, dur: dur}
	cfg := &TarsServerConf{Proto: "tcp", Address: "10.0.0.2:1", HandleTimeout: ht, MaxInvoke: int32(pool), QueueCap: 1}
	ts := &TarsServer{protocol: proto, config: cfg}
	h := &tcpHandler{config: cfg, server: ts}
	if pool > 0 {
		h.pool = gpool.NewPool(pool, 1)
	}
	conn := &c10Conn{}
	ci := &connInfo{conn: conn}
	h.handleConn(ci, []byte{0, 0, 0, 5, 'R'})
	// let handler, timeout and late completion all finish (virtual time)
	time.Sleep(600 * time.Millisecond)
	vapi.Quiesce()
	if oneway {
		vapi.Check(len(conn.writes) == 0, "a one-way request produces no reply")
	} else {
		vapi.Check(len(conn.writes) == 1, "a two-way request is answered exactly once")
		if len(conn.writes) == 1 {
			got := conn.writes[0][4]
			if ht > 0 && dur > ht {
				vapi.Check(got == 'T', "an over-long handler is answered with the timeout response")
			}
			if ht == 0 || dur < ht {
				vapi.Check(got == 'N', "a handler within its time limit is answered with its own response")
			}
		}
	}
	vapi.Check(proto.calls == 1, "the request is handed to the protocol exactly once")
	vapi.Reach("c10-handleconn")
}
