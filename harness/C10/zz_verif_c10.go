package tars

// C10 harness (protocol layer): Protocol.Invoke answers a well-formed request with a response
// carrying the request's id, version and packet type; ping, implementation errors and the
// queue-timeout rule; the packet type is recorded in the context (the transport relies on it
// to suppress the reply of one-way requests).

import (
	"context"
	"errors"
	"time"

	"github.com/TarsCloud/TarsGo/tars/protocol/codec"
	"github.com/TarsCloud/TarsGo/tars/protocol/res/requestf"
	"github.com/TarsCloud/TarsGo/tars/util/current"
	"github.com/TarsCloud/TarsGo/tars/zzverif/vapi"
)

type c10Disp struct {
	calls int
	mode  int
	code  int32
	msg   string
}

func (d *c10Disp) Dispatch(ctx context.Context, imp interface{}, req *requestf.RequestPacket, rsp *requestf.ResponsePacket, withContext bool) error {
	d.calls++
	// the transport decides whether to reply from the packet type in the context; it may ask
	// while the implementation is still running (handle timeout), so it must be recorded by now
	pt, ok := current.GetPacketTypeFromContext(ctx)
	vapi.Check(ok && pt == req.CPacketType, "packet type is recorded in the context before the implementation runs")
	rsp.SBuffer = []int8{42}
	switch d.mode {
	case 1:
		return errors.New(d.msg)
	case 2:
		return &Error{Code: d.code, Message: d.msg}
	}
	return nil
}

func c10Pack(req *requestf.RequestPacket) []byte {
	b := codec.NewBuffer()
	_ = req.WriteTo(b)
	body := b.ToBytes()
	n := len(body) + 4
	out := []byte{byte(n >> 24), byte(n >> 16), byte(n >> 8), byte(n)}
	return append(out, body...)
}

func VerifC10Invoke() {
	disp := &c10Disp{mode: vapi.Choice("mode", 3), code: vapi.Int32("code"), msg: "m" + vapi.String("msg", 1)}
	p := NewTarsProtocol(disp, nil, true)
	p.app = &application{allFilters: &filters{}}
	version := []int16{1, 3, 5}[vapi.Choice("version", 3)]
	ptype := int8(vapi.Choice("ptype", 2))
	fn := []string{"tars_ping", "f"}[vapi.Choice("fn", 2)]
	tmo := int32(vapi.Concrete(uint64(vapi.Choice("timeout", 4))))
	delay := int64(vapi.Concrete(uint64(vapi.Choice("delay", 5))))
	req := requestf.RequestPacket{IVersion: version, CPacketType: ptype, IRequestId: vapi.Int32("reqid"), SServantName: "s", SFuncName: fn, ITimeout: tmo,
		Context: map[string]string{}, Status: map[string]string{}}
	ctx := current.ContextWithTarsCurrent(context.Background())
	nowMs := time.Now().UnixNano() / 1e6
	current.SetRecvPkgTsFromContext(ctx, nowMs-delay)

	out := p.Invoke(ctx, c10Pack(&req))

	vapi.Check(len(out) >= 4, "a response is produced")
	n := int(out[0])<<24 | int(out[1])<<16 | int(out[2])<<8 | int(out[3])
	vapi.Check(n == len(out), "response length prefix")
	var rid, ret int32
	var rver int16
	var rpt int8
	var desc string
	if version == 3 { // TUP responses travel as a RequestPacket
		var r requestf.RequestPacket
		vapi.Check(r.ReadFrom(codec.NewReader(out[4:])) == nil, "TUP response decodes")
		rid, rver, rpt = r.IRequestId, r.IVersion, r.CPacketType
	} else {
		var r requestf.ResponsePacket
		vapi.Check(r.ReadFrom(codec.NewReader(out[4:])) == nil, "response decodes")
		rid, rver, rpt, ret, desc = r.IRequestId, r.IVersion, r.CPacketType, r.IRet, r.SResultDesc
	}
	vapi.Check(rid == req.IRequestId, "response carries the request id")
	vapi.Check(rver == version, "response carries the protocol version")
	vapi.Check(rpt == ptype, "response carries the packet type")
	pt, ok := current.GetPacketTypeFromContext(ctx)
	vapi.Check(ok && pt == ptype, "packet type recorded in the context for the transport")

	expired := tmo > 0 && delay >= int64(tmo)
	switch {
	case expired:
		vapi.Check(disp.calls == 0, "expired request is not executed")
		if version != 3 {
			vapi.Check(ret == -6, "expired request is answered with the queue-timeout code")
		}
	case fn == "tars_ping":
		vapi.Check(disp.calls == 0, "ping does not invoke the implementation")
		if version != 3 {
			vapi.Check(ret == 0, "ping is answered with success")
		}
	default:
		vapi.Check(disp.calls == 1, "the implementation is invoked exactly once")
		if version != 3 {
			switch disp.mode {
			case 0:
				vapi.Check(ret == 0, "success return code")
			case 1:
				vapi.Check(ret == 1 && desc == disp.msg, "plain error: code 1 and the message")
			case 2:
				vapi.Check(ret == disp.code && desc == disp.msg, "tars.Error: its code and message")
				if disp.code != 0 {
					vapi.Check(ret != 0, "an implementation error becomes a non-zero return code")
				}
			}
		}
	}
	vapi.Reach("c10-invoke")
}

// VerifC10InvokeTimeout: the handle-timeout reply carries the request's identity.
func VerifC10InvokeTimeout() {
	p := NewTarsProtocol(&c10Disp{}, nil, true)
	p.app = &application{allFilters: &filters{}}
	version := []int16{1, 3, 5}[vapi.Choice("version", 3)]
	ptype := int8(vapi.Choice("ptype", 2))
	req := requestf.RequestPacket{IVersion: version, CPacketType: ptype, IRequestId: vapi.Int32("reqid"), SServantName: "s", SFuncName: "f",
		Context: map[string]string{}, Status: map[string]string{}}
	out := p.InvokeTimeout(c10Pack(&req))
	vapi.Check(len(out) >= 4, "a timeout response is produced")
	var rid, ret int32
	var rver int16
	var rpt int8
	if version == 3 {
		var r requestf.RequestPacket
		vapi.Check(r.ReadFrom(codec.NewReader(out[4:])) == nil, "TUP timeout response decodes as a TUP packet")
		rid, rver, rpt = r.IRequestId, r.IVersion, r.CPacketType
	} else {
		var r requestf.ResponsePacket
		vapi.Check(r.ReadFrom(codec.NewReader(out[4:])) == nil, "timeout response decodes")
		rid, rver, rpt, ret = r.IRequestId, r.IVersion, r.CPacketType, r.IRet
		vapi.Check(ret != 0, "timeout response carries an error code")
	}
	vapi.Check(rid == req.IRequestId, "timeout response carries the request id")
	vapi.Check(rver == version, "timeout response carries the protocol version")
	vapi.Check(rpt == ptype, "timeout response carries the packet type")
	vapi.Reach("c10-invoke-timeout")
}

// VerifC05InvokeShort (C05, datagram clause): a packet shorter than its 4-byte header reaching
// Protocol.Invoke / InvokeTimeout (UDP path: no framing check) must not terminate the process.
func VerifC05InvokeShort() {
	disp := &c10Disp{}
	p := NewTarsProtocol(disp, nil, true)
	p.app = &application{allFilters: &filters{}}
	n := vapi.Len("n", 5)
	pkg := vapi.Bytes("b", n)
	ctx := current.ContextWithTarsCurrent(context.Background())
	if vapi.Bool("timeoutpath") {
		_ = p.InvokeTimeout(pkg)
	} else {
		_ = p.Invoke(ctx, pkg)
	}
	vapi.Reach("c05-invoke-short")
}
