package tars

// C07, the parsers the transports actually call: (*tars.Protocol).ParsePackage on the server and
// (*protocol.TarsProtocol).ParsePackage on the client classify a buffer exactly by the
// length-prefix rule for ANY configured maximum (4 .. 2^31-1) and ANY 4-byte prefix: fewer than 4
// bytes -> wait; prefix < 4 or > maximum -> protocol error; prefix <= buffered -> one packet of
// exactly that length; otherwise wait (also for packets of 16 MiB and more when the maximum
// allows them).

import (
	"github.com/TarsCloud/TarsGo/tars/protocol"
	"github.com/TarsCloud/TarsGo/tars/transport"
	"github.com/TarsCloud/TarsGo/tars/zzverif/vapi"
)

func VerifC07ParseAnyMax() {
	m := vapi.Uint32("M")
	vapi.Assume(vapi.And(m >= 4, m <= 0x7fffffff))
	protocol.SetMaxPackageLength(int(m))
	l := vapi.Uint32("L")
	n := vapi.Len("buffered", 12)
	buf := make([]byte, n)
	copy(buf, vapi.Bytes("rest", n))
	if n >= 4 {
		buf[0], buf[1], buf[2], buf[3] = byte(l>>24), byte(l>>16), byte(l>>8), byte(l)
	}
	var gotLen, st int
	if vapi.Bool("client") {
		gotLen, st = (&protocol.TarsProtocol{}).ParsePackage(buf)
	} else {
		gotLen, st = (&Protocol{}).ParsePackage(buf)
	}
	switch {
	case n < 4:
		vapi.Check(st == transport.PackageLess, "fewer than 4 bytes buffered: wait for more")
	case vapi.Or(l < 4, l > m):
		vapi.Check(st == transport.PackageError, "length prefix out of range is a protocol error")
	case uint64(l) <= uint64(n):
		vapi.Check(vapi.And(st == transport.PackageFull, gotLen == int(l)), "a complete packet is cut at exactly its announced length")
	default:
		vapi.Check(st == transport.PackageLess, "an admissible packet that is not complete yet: wait for more (whatever its size)")
	}
	vapi.Reach("c07-parse-anymax")
}

// c07Feed plays the client receive loop (verified on its own in package transport) over the
// parser the client really installs - (*AdapterProxy).ParsePackage - for one connection: a fresh
// buffer, the stream delivered in the given chunks.
func c07Feed(adp *AdapterProxy, stream []byte, segmented bool) (pkts [][]byte, protoErr bool) {
	var cur []byte
	pos := 0
	for pos < len(stream) {
		n := len(stream) - pos
		if segmented {
			k := vapi.U64("chunk", 8)
			vapi.Assume(vapi.And(k >= 1, k <= uint64(len(stream)-pos)))
			n = int(vapi.Concrete(k))
		}
		cur = append(cur, stream[pos:pos+n]...)
		pos += n
		for {
			l, st := adp.ParsePackage(cur)
			if st == transport.PackageLess {
				break
			}
			if st == transport.PackageFull {
				p := make([]byte, l)
				copy(p, cur[:l])
				pkts = append(pkts, p)
				cur = cur[l:]
				if len(cur) > 0 {
					continue
				}
				cur = nil
				break
			}
			return pkts, true
		}
	}
	return pkts, false
}

func c07RefPkts(stream []byte, max int) (pkts [][]byte) {
	pos := 0
	for len(stream)-pos >= 4 {
		l := int(uint32(stream[pos])<<24 | uint32(stream[pos+1])<<16 | uint32(stream[pos+2])<<8 | uint32(stream[pos+3]))
		if l < 4 || l > max || len(stream)-pos < l {
			return
		}
		pkts = append(pkts, stream[pos:pos+l])
		pos += l
	}
	return
}

// VerifC07TwoConnections: framing is a function of each connection's own byte stream: what was
// left unfinished on a connection that died (a packet cut short) has no influence on how the
// stream of the next connection is cut into packets.
func VerifC07TwoConnections() {
	protocol.SetMaxPackageLength(16)
	adp := &AdapterProxy{servantProxy: &ServantProxy{proto: &protocol.TarsProtocol{}}}
	s1 := vapi.Bytes("s1", vapi.Len("n1", 6))
	s2 := vapi.Bytes("s2", vapi.Len("n2", 6))
	got1, _ := c07Feed(adp, s1, false) // connection 1 ends here (possibly in the middle of a packet)
	got2, err2 := c07Feed(adp, s2, true)
	want1, want2 := c07RefPkts(s1, 16), c07RefPkts(s2, 16)
	vapi.Check(len(got1) == len(want1), "first connection: number of packets handed to the protocol layer")
	if !err2 {
		vapi.Check(len(got2) == len(want2), "second connection: number of packets is determined by its own stream only")
		for i := range want2 {
			if i < len(got2) {
				vapi.Check(vapi.BytesEq(got2[i], want2[i]), "second connection: packet bytes and boundaries")
			}
		}
	}
	vapi.Reach("c07-two-connections")
}
