package tars

// C07, the parsers the transports actually call: (*tars.Protocol).ParsePackage on the server and
// (*protocol.TarsProtocol).ParsePackage on the client classify a buffer exactly by the
// length-prefix rule for ANY configured maximum (4 .. 2^31-1) and ANY 4-byte prefix: fewer than 4
// bytes -> wait; prefix < 4 or > maximum -> protocol error; prefix <= buffered -> one packet of
// exactly that length; otherwise wait (also for packets of 16 MiB and more when the maximum
// allows them).

import (
	"github.com/TarsCloud/TarsGo/tars/protocol"
	"github.com/TarsCloud/TarsGo/tars/transport"
	"github.com/TarsCloud/TarsGo/tars/zzverif/vapi"
)

func VerifC07ParseAnyMax() {
	m := vapi.Uint32("M")
	vapi.Assume(vapi.And(m >= 4, m <= 0x7fffffff))
	protocol.SetMaxPackageLength(int(m))
	l := vapi.Uint32("L")
	n := vapi.Len("buffered", 12)
	buf := make([]byte, n)
	copy(buf, vapi.Bytes("rest", n))
	if n >= 4 {
		buf[0], buf[1], buf[2], buf[3] = byte(l>>24), byte(l>>16), byte(l>>8), byte(l)
	}
	var gotLen, st int
	if vapi.Bool("client") {
		gotLen, st = (&protocol.TarsProtocol{}).ParsePackage(buf)
	} else {
		gotLen, st = (&Protocol{}).ParsePackage(buf)
	}
	switch {
	case n < 4:
		vapi.Check(st == transport.PackageLess, "fewer than 4 bytes buffered: wait for more")
	case vapi.Or(l < 4, l > m):
		vapi.Check(st == transport.PackageError, "length prefix out of range is a protocol error")
	case uint64(l) <= uint64(n):
		vapi.Check(vapi.And(st == transport.PackageFull, gotLen == int(l)), "a complete packet is cut at exactly its announced length")
	default:
		vapi.Check(st == transport.PackageLess, "an admissible packet that is not complete yet: wait for more (whatever its size)")
	}
	vapi.Reach("c07-parse-anymax")
}
