package transport

// C07 harness: stream framing is independent of TCP segmentation and bounds packet size.
// A fake net.Conn serves a symbolic byte stream in symbolic chunk sizes; the real
// tcpHandler.recv (server) and connection.recv (client) loops run over it; the packets they
// hand to the protocol layer are compared with a reference splitter that sees the
// unsplit stream.

import (
	"context"
	"io"
	"net"
	"sync"
	"time"

	"github.com/TarsCloud/TarsGo/tars/protocol"
	"github.com/TarsCloud/TarsGo/tars/zzverif/vapi"
)

type c07Addr struct{}

func (c07Addr) Network() string { return "tcp" }
func (c07Addr) String() string  { return "10.0.0.1:4242" }

type c07Conn struct {
	stream   []byte
	pos      int
	closed   bool
	reads    int
	written  int
	readAfterClose bool
	short    int
}

func (c *c07Conn) Read(b []byte) (int, error) {
	if c.closed {
		c.readAfterClose = true
		return 0, net.ErrClosed
	}
	c.reads++
	rem := len(c.stream) - c.pos
	if rem == 0 {
		return 0, io.EOF
	}
	if c07BigMode {
		return c.readBig(b)
	}
	max := rem
	if len(b) < max {
		max = len(b)
	}
	k := vapi.U64("chunk", 8)
	vapi.Assume(vapi.And(k >= 1, k <= uint64(max)))
	n := int(vapi.Concrete(k))
	copy(b, c.stream[c.pos:c.pos+n])
	c.pos += n
	return n, nil
}
func (c *c07Conn) Write(b []byte) (int, error)        { c.written += len(b); return len(b), nil }
func (c *c07Conn) Close() error                       { c.closed = true; return nil }
func (c *c07Conn) LocalAddr() net.Addr                { return c07Addr{} }
func (c *c07Conn) RemoteAddr() net.Addr               { return c07Addr{} }
func (c *c07Conn) SetDeadline(t time.Time) error      { return nil }
func (c *c07Conn) SetReadDeadline(t time.Time) error  { return nil }
func (c *c07Conn) SetWriteDeadline(t time.Time) error { return nil }

// recorder of packets handed to the protocol layer
type c07Rec struct {
	pkgs [][]byte
}

type c07ServerProto struct{ rec *c07Rec }

func (p *c07ServerProto) Invoke(ctx context.Context, pkg []byte) []byte {
	c07Mu.Lock()
	p.rec.pkgs = append(p.rec.pkgs, pkg)
	c07Mu.Unlock()
	return nil
}
func (p *c07ServerProto) ParsePackage(buff []byte) (int, int) { return protocol.TarsRequest(buff) }
func (p *c07ServerProto) InvokeTimeout(pkg []byte) []byte     { return nil }
func (p *c07ServerProto) GetCloseMsg() []byte                 { return nil }
func (p *c07ServerProto) DoClose(ctx context.Context)         {}

type c07ClientProto struct{ rec *c07Rec }

func (p *c07ClientProto) Recv(pkg []byte) {
	c07Mu.Lock()
	p.rec.pkgs = append(p.rec.pkgs, pkg)
	c07Mu.Unlock()
}

var c07Mu sync.Mutex
func (p *c07ClientProto) ParsePackage(buff []byte) (int, int) { return protocol.TarsRequest(buff) }

// reference splitter over the unsplit stream
func c07Ref(stream []byte, max int) (pkts [][]byte, protoErr bool) {
	pos := 0
	for {
		rem := len(stream) - pos
		if rem < 4 {
			return pkts, false
		}
		l := int(uint32(stream[pos])<<24 | uint32(stream[pos+1])<<16 | uint32(stream[pos+2])<<8 | uint32(stream[pos+3]))
		if l < 4 || l > max {
			return pkts, true
		}
		if rem < l {
			return pkts, false
		}
		pkts = append(pkts, stream[pos:pos+l])
		pos += l
	}
}

func c07Compare(got, want [][]byte, side string) {
	vapi.Check(len(got) == len(want), side+": number of packets handed to the protocol layer")
	if !vapi.Engine() {
		// natively both sides hand packets over to new goroutines (`go Recv(pkg)`, `go handler()`):
		// the hand-off order is not observable there, compare as a multiset
		used := make([]bool, len(got))
		for _, w := range want {
			found := false
			for j, g := range got {
				if !used[j] && vapi.BytesEq(g, w) {
					used[j], found = true, true
					break
				}
			}
			vapi.Check(found, side+": packet bytes, order and boundaries")
		}
		return
	}
	for i := range want {
		if i < len(got) {
			vapi.Check(vapi.BytesEq(got[i], want[i]), side+": packet bytes, order and boundaries")
		}
	}
}

func c07Setup(maxS int) (stream []byte, max int) {
	s := vapi.Len("S", maxS)
	stream = vapi.Bytes("b", s)
	m := vapi.U64("M", 8)
	vapi.Assume(vapi.And(m >= 4, m <= 16))
	max = int(m)
	protocol.SetMaxPackageLength(max)
	return
}

func c07Server(maxS int) {
	stream, max := c07Setup(maxS)
	rec := &c07Rec{}
	conn := &c07Conn{stream: stream}
	cfg := &TarsServerConf{Proto: "tcp", Address: "10.0.0.2:1"}
	ts := &TarsServer{protocol: &c07ServerProto{rec}, config: cfg}
	h := &tcpHandler{config: cfg, server: ts}
	h.recv(&connInfo{conn: conn})
	want, perr := c07Ref(stream, max)
	c07Compare(rec.pkgs, want, "server")
	vapi.Check(conn.closed, "server: connection closed when the receive loop ends")
	vapi.Check(!conn.readAfterClose, "server: no read after close")
	if perr {
		vapi.Check(conn.pos <= len(stream), "server: stops at protocol error")
	}
}

func VerifC07Server()     { c07Server(8); vapi.Reach("c07-server") }
func VerifC07ServerLong() { c07Server(10); vapi.Reach("c07-server-long") }

func c07Client(maxS int) {
	stream, max := c07Setup(maxS)
	rec := &c07Rec{}
	conn := &c07Conn{stream: stream}
	cl := &TarsClient{protocol: &c07ClientProto{rec}, config: &TarsClientConf{Proto: "tcp"}}
	c := &connection{client: cl, conn: conn}
	cl.conn = c
	done := make(chan bool, 1)
	c.recv(conn, done)
	vapi.Quiesce() // natively: let the `go Recv(pkg)` goroutines finish
	want, _ := c07Ref(stream, max)
	c07Compare(rec.pkgs, want, "client")
	vapi.Check(conn.closed && c.isClosed, "client: connection closed when the receive loop ends")
	vapi.Check(len(done) == 1, "client: sender notified")
}

func VerifC07Client()     { c07Client(8); vapi.Reach("c07-client") }
func VerifC07ClientLong() { c07Client(10); vapi.Reach("c07-client-long") }

// exactly-max packet accepted, max+1 rejected (explicit boundary obligation)
func VerifC07Boundary() {
	m := vapi.U64("M", 8)
	vapi.Assume(vapi.And(m >= 4, m <= 16))
	protocol.SetMaxPackageLength(int(m))
	l := uint32(vapi.U64("L", 32))
	buf := make([]byte, 20)
	buf[0], buf[1], buf[2], buf[3] = byte(l>>24), byte(l>>16), byte(l>>8), byte(l)
	n, st := protocol.TarsRequest(buf)
	if uint64(l) == m {
		vapi.Check(st == PackageFull && n == int(m), "packet of exactly the maximum length is accepted")
	}
	if uint64(l) > m || l < 4 {
		vapi.Check(st == PackageError, "length prefix out of range is a protocol error")
	}
	vapi.Reach("c07-boundary")
}

// ---- reads that fill the whole 4096-byte receive buffer ----
// The symbolic streams above are at most 10 bytes long, so a Read never fills the buffer. Here
// the stream is two or three packets whose total length is within a few bytes of the buffer size
// (packet lengths 2048+d, d in -2..2 chosen by the solver; payload bytes a fixed pattern except
// 4 symbolic bytes after each length prefix), and every Read returns all that fits, except for at most two
// short reads (one byte less, or 3 bytes) at any positions.

var c07BigMode bool

func (c *c07Conn) readBig(b []byte) (int, error) {
	rem := len(c.stream) - c.pos
	max := rem
	if len(b) < max {
		max = len(b)
	}
	n := max
	if c.short < 2 {
		// at most two short reads per stream (keeps the number of reads bounded)
		switch vapi.Choice("bigchunk", 3) {
		case 1:
			if max > 1 {
				n = max - 1
				c.short++
			}
		case 2:
			if max > 3 {
				n = 3
				c.short++
			}
		}
	}
	copy(b, c.stream[c.pos:c.pos+n])
	c.pos += n
	return n, nil
}

func c07BigStream() []byte {
	np := 2 + vapi.Choice("extra", 2)
	var stream []byte
	for p := 0; p < np; p++ {
		l := 2048
		if p == 2 {
			l = 8
		}
		d := vapi.U64("d", 8)
		vapi.Assume(d <= 4)
		l += int(vapi.Concrete(d)) - 2
		pkt := make([]byte, l)
		pkt[0], pkt[1], pkt[2], pkt[3] = byte(l>>24), byte(l>>16), byte(l>>8), byte(l)
		for i := 4; i < l; i++ {
			pkt[i] = byte(i*7 + p*31 + 3)
		}
		sym := vapi.Bytes("payload", 4)
		copy(pkt[4:], sym)
		stream = append(stream, pkt...)
	}
	protocol.SetMaxPackageLength(4200)
	return stream
}

func VerifC07ServerBig() {
	c07BigMode = true
	stream := c07BigStream()
	rec := &c07Rec{}
	conn := &c07Conn{stream: stream}
	cfg := &TarsServerConf{Proto: "tcp", Address: "10.0.0.2:1"}
	ts := &TarsServer{protocol: &c07ServerProto{rec}, config: cfg}
	h := &tcpHandler{config: cfg, server: ts}
	h.recv(&connInfo{conn: conn})
	want, _ := c07Ref(stream, 4200)
	c07Compare(rec.pkgs, want, "server")
	vapi.Check(conn.closed, "server: connection closed when the receive loop ends")
	vapi.Reach("c07-server-big")
}

func VerifC07ClientBig() {
	c07BigMode = true
	stream := c07BigStream()
	rec := &c07Rec{}
	conn := &c07Conn{stream: stream}
	cl := &TarsClient{protocol: &c07ClientProto{rec}, config: &TarsClientConf{Proto: "tcp"}}
	c := &connection{client: cl, conn: conn}
	cl.conn = c
	done := make(chan bool, 1)
	c.recv(conn, done)
	vapi.Quiesce()
	want, _ := c07Ref(stream, 4200)
	c07Compare(rec.pkgs, want, "client")
	vapi.Check(conn.closed && c.isClosed, "client: connection closed when the receive loop ends")
	vapi.Reach("c07-client-big")
}
