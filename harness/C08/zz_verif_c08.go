package tars

// C08 harnesses: responses are delivered to the caller of the matching request id; request ids
// are never 0 and distinct among outstanding calls.
// The transport is replaced by a hand-off: (*transport.TarsClient).Send is redirected to
// VerifC08Send, which puts the packed request "on the wire"; a peer goroutine answers with a
// symbolic script (reply to any id seen so far, again (duplicate), an id nobody waits for, id 0,
// or stay silent); each reply is delivered through `go adp.Recv(pkg)` exactly as the client
// receive loop does. Timers run on the virtual clock.

import (
	"context"
	"net"
	"sync/atomic"
	"time"

	"github.com/TarsCloud/TarsGo/tars/protocol"
	"github.com/TarsCloud/TarsGo/tars/protocol/codec"
	"github.com/TarsCloud/TarsGo/tars/protocol/res/endpointf"
	"github.com/TarsCloud/TarsGo/tars/protocol/res/requestf"
	"github.com/TarsCloud/TarsGo/tars/transport"
	"github.com/TarsCloud/TarsGo/tars/util/current"
	"github.com/TarsCloud/TarsGo/tars/util/endpoint"
	"github.com/TarsCloud/TarsGo/tars/zzverif/vapi"
)

// ---- stub endpoint manager: always the same adapter ----
type c08Mgr struct{ adp *AdapterProxy }

func (m *c08Mgr) SelectAdapterProxy(msg *Message) (*AdapterProxy, bool) { return m.adp, false }
func (m *c08Mgr) GetAllEndpoint() []*endpoint.Endpoint                  { return nil }
func (m *c08Mgr) preInvoke()                                            {}
func (m *c08Mgr) postInvoke()                                           {}
func (m *c08Mgr) addAliveEp(ep endpoint.Endpoint)                       {}

var c08Wire chan int32 // request ids seen on the wire

// redirect target of (*transport.TarsClient).Send
func VerifC08Send(tc *transport.TarsClient, req []byte) error {
	var p requestf.RequestPacket
	if err := p.ReadFrom(codec.NewReader(req[4:])); err != nil {
		vapi.Fail("request on the wire does not decode")
	}
	c08Wire <- p.IRequestId
	return nil
}

func c08Setup(timeoutMs int) (*ServantProxy, *AdapterProxy) {
	comm := &Communicator{Client: &clientConfig{ObjQueueMax: 100, ClientReadTimeout: 100 * time.Millisecond}, app: &application{allFilters: &filters{}}}
	pt := &endpointf.EndpointF{Host: "10.0.0.1", Port: 1, Istcp: 1}
	conf := &transport.TarsClientConf{Proto: "tcp", ReadTimeout: 100 * time.Millisecond}
	adp := &AdapterProxy{point: pt, conf: conf, comm: comm, status: true}
	c08Wire = make(chan int32, 8)
	addr := "10.0.0.1:1"
	if !vapi.Engine() {
		// native replay: the requests travel over a real loopback connection to a server that only
		// records their ids on the same "wire" channel; the peer script still answers through
		// adp.Recv, as the client receive loop would
		addr = c08NativeWire()
		if h, p, err := net.SplitHostPort(addr); err == nil {
			// (a reconnect notification makes the adapter dial its endpoint again)
			pt.Host = h
			pn := 0
			for _, c := range p {
				pn = pn*10 + int(c-'0')
			}
			pt.Port = int32(pn)
		}
	}
	adp.tarsClient = transport.NewTarsClient(addr, adp, conf)
	s := &ServantProxy{name: "obj", comm: comm, proto: &protocol.TarsProtocol{}, timeout: timeoutMs, version: 1}
	if !vapi.Engine() {
		s.proto = &c08NativeProto{}
	}
	s.manager = &c08Mgr{adp}
	adp.servantProxy = s
	return s, adp
}

// native replay: the request id is handed to the peer from inside RequestPack, i.e. while the
// call is registered but not yet waiting for its reply, and the caller pauses there for a moment:
// whatever the peer script sends now (duplicates included) is parked in Recv on the call's reply
// channel before the caller goes on - the interleaving the engine finds by scheduling is then
// reproduced deterministically instead of by luck.
type c08NativeProto struct{ protocol.TarsProtocol }

func (p *c08NativeProto) RequestPack(req *requestf.RequestPacket) ([]byte, error) {
	b, err := p.TarsProtocol.RequestPack(req)
	c08Wire <- req.IRequestId
	time.Sleep(5 * time.Millisecond)
	return b, err
}

func c08NativeWire() string {
	ln, err := net.Listen("tcp", "127.0.0.1:0")
	if err != nil {
		panic(err)
	}
	go func() {
		for {
			c, err := ln.Accept()
			if err != nil {
				return
			}
			go func(c net.Conn) {
				var buf []byte
				tmp := make([]byte, 4096)
				for {
					n, err := c.Read(tmp)
					if err != nil {
						return
					}
					buf = append(buf, tmp[:n]...)
					for len(buf) >= 4 {
						l := int(buf[0])<<24 | int(buf[1])<<16 | int(buf[2])<<8 | int(buf[3])
						if l < 4 || len(buf) < l {
							break
						}
						buf = buf[l:] // swallowed: the ids reach the peer through c08NativeProto
					}
				}
			}(c)
		}
	}()
	return ln.Addr().String()
}

func c08Reply(id int32, payload int8) []byte {
	rsp := requestf.ResponsePacket{IVersion: 1, IRequestId: id, SBuffer: []int8{payload}}
	b := codec.NewBuffer()
	_ = rsp.WriteTo(b)
	body := b.ToBytes()
	n := len(body) + 4
	return append([]byte{byte(n >> 24), byte(n >> 16), byte(n >> 8), byte(n)}, body...)
}

type c08Call struct {
	id   int32
	err  error
	resp *requestf.ResponsePacket
	done int32
}

func c08Invoke(s *ServantProxy, c *c08Call, timeoutMs int) {
	req := &requestf.RequestPacket{IVersion: 1, IRequestId: s.genRequestID(), SServantName: "obj", SFuncName: "f", ITimeout: int32(timeoutMs)}
	c.id = req.IRequestId
	msg := &Message{Req: req, Ser: s}
	msg.Init()
	ctx, cancel := context.WithTimeout(current.ContextWithClientCurrent(context.Background()), time.Duration(timeoutMs)*time.Millisecond)
	c.err = s.doInvoke(ctx, msg, time.Duration(timeoutMs)*time.Millisecond)
	cancel()
	c.resp = msg.Resp
	atomic.StoreInt32(&c.done, 1)
}

// peer: R steps, each a symbolic action over the ids seen so far
func c08Peer(adp *AdapterProxy, steps int) {
	var seen []int32
	for st := 0; st < steps; st++ {
		// take whatever is on the wire (non-blocking), or wait for the first request
		if len(seen) == 0 {
			seen = append(seen, <-c08Wire)
		}
		for more := true; more; {
			select {
			case id := <-c08Wire:
				seen = append(seen, id)
			default:
				more = false
			}
		}
		act := vapi.Choice("peer", 6)
		if !vapi.Engine() && act >= 2 {
			// native replay: unsolicited packets (stray id, push, reconnect notification) are sent
			// once the callers are past the RequestPack pause and wait for their replies
			time.Sleep(10 * time.Millisecond)
		}
		switch act {
		case 0, 1: // reply to the act-th request seen (if any); payload identifies the id
			if act < len(seen) {
				go adp.Recv(c08Reply(seen[act], int8(seen[act])))
			}
		case 2: // ANY id nobody is waiting for (this run's ids are 7 and 8; 0 is the push id)
			x := vapi.Int32("stray")
			vapi.Assume(vapi.And(x != 0, vapi.And(x != 7, x != 8)))
			go adp.Recv(c08Reply(x, 99))
		case 3: // id 0: server push
			go adp.Recv(c08Reply(0, 98))
		case 4: // silent
		case 5: // id 0 with the server's reconnect notification (what GetCloseMsg produces)
			rsp := requestf.ResponsePacket{IVersion: 1, IRequestId: 0, SResultDesc: reconnectMsg}
			b := codec.NewBuffer()
			_ = rsp.WriteTo(b)
			body := b.ToBytes()
			n := len(body) + 4
			go adp.Recv(append([]byte{byte(n >> 24), byte(n >> 16), byte(n >> 8), byte(n)}, body...))
		}
	}
}

func c08Check(adp *AdapterProxy, c *c08Call) {
	vapi.Check(c.id != 0, "request id is never 0")
	if c.err == nil {
		vapi.Check(c.resp != nil, "a successful call has a response")
		if c.resp != nil {
			vapi.Check(c.resp.IRequestId == c.id, "the caller receives the response whose id equals its own request id")
			vapi.Check(len(c.resp.SBuffer) == 1 && c.resp.SBuffer[0] == int8(c.id), "the caller receives the payload addressed to its id")
		}
	}
	_, still := adp.resp.Load(c.id)
	vapi.Check(!still, "the pending-reply table holds no entry for a finished call")
}

// VerifC08Demux: two concurrent callers sharing one adapter, a peer with a 3-step script.
func c08Demux(steps, callers int) {
	msgID = 6 // (the counter arithmetic from an arbitrary value is covered by VerifC08GenRequestID)
	s, adp := c08Setup(50)
	var calls [2]c08Call
	for i := 1; i < callers; i++ {
		i := i
		go c08Invoke(s, &calls[i], 50)
	}
	go c08Peer(adp, steps)
	c08Invoke(s, &calls[0], 50)
	// wait for the other caller (virtual time lets its timeout fire)
	for i := 1; i < callers; i++ {
		for atomic.LoadInt32(&calls[i].done) == 0 {
			time.Sleep(10 * time.Millisecond)
		}
	}
	vapi.Quiesce()
	for i := 0; i < callers; i++ {
		c08Check(adp, &calls[i])
	}
	if callers == 2 {
		vapi.Check(calls[0].id != calls[1].id, "concurrently outstanding calls never share an id")
	}
	vapi.Check(atomic.LoadInt32(&s.queueLen) == 0, "in-flight counter is back to zero")
}

// VerifC08Sequential: one caller makes two calls in a row while the peer answers the first one
// possibly twice / late / with stray ids: whatever is still in flight for the first call
// (a duplicate reply parked in Recv, a recycled reply channel) must not reach the second call.
func VerifC08Sequential()     { c08Sequential(2) }
func VerifC08SequentialLong() { c08Sequential(3) }

func c08Sequential(steps int) {
	msgID = 6
	s, adp := c08Setup(50)
	var calls [2]c08Call
	go c08Peer(adp, steps)
	c08Invoke(s, &calls[0], 50)
	c08Invoke(s, &calls[1], 50)
	vapi.Quiesce()
	c08Check(adp, &calls[0])
	c08Check(adp, &calls[1])
	vapi.Check(calls[0].id != calls[1].id, "successive calls do not share an id")
	vapi.Check(atomic.LoadInt32(&s.queueLen) == 0, "in-flight counter is back to zero")
	vapi.Reach("c08-sequential")
}

func VerifC08Demux()     { c08Demux(2, 2); vapi.Reach("c08-demux") }
func VerifC08DemuxLong() { c08Demux(3, 2); vapi.Reach("c08-demux-long") }

// VerifC08GenRequestID: k concurrent genRequestID calls from an ARBITRARY counter value
// (including maxInt32-1, maxInt32, -1): results non-zero and pairwise distinct.
func VerifC08GenRequestID() {
	msgID = vapi.Int32("msgid0")
	s := &ServantProxy{}
	var ids [3]int32
	var done int32
	for i := 1; i < 3; i++ {
		i := i
		go func() {
			ids[i] = s.genRequestID()
			atomic.AddInt32(&done, 1)
		}()
	}
	ids[0] = s.genRequestID()
	for atomic.LoadInt32(&done) < 2 {
		time.Sleep(time.Millisecond)
	}
	vapi.Check(vapi.And(ids[0] != 0, vapi.And(ids[1] != 0, ids[2] != 0)), "request ids are never 0")
	vapi.Check(vapi.And(ids[0] != ids[1], vapi.And(ids[0] != ids[2], ids[1] != ids[2])), "concurrently generated ids are pairwise distinct")
	vapi.Reach("c08-genrequestid")
}

// ---- a rejected call next to calls in flight ----
type c08RejMgr struct{ adp *AdapterProxy }

func (m *c08RejMgr) SelectAdapterProxy(msg *Message) (*AdapterProxy, bool) {
	if msg.Req.SFuncName == "reject" {
		if !vapi.Engine() {
			// native replay: hold the rejected call between drawing its id and failing, so that
			// the other caller draws its id in between (the engine explores this by scheduling)
			time.Sleep(20 * time.Millisecond)
		}
		return nil, false // "no adapter Proxy selected": the call fails before anything is sent
	}
	return m.adp, false
}
func (m *c08RejMgr) GetAllEndpoint() []*endpoint.Endpoint { return nil }
func (m *c08RejMgr) preInvoke()                            {}
func (m *c08RejMgr) postInvoke()                           {}
func (m *c08RejMgr) addAliveEp(ep endpoint.Endpoint)       {}

// VerifC08RejectedCall: through TarsInvoke itself (which draws the ids): call A is in flight, a
// call that is rejected before it is sent runs concurrently with it, then call C is made while A
// is still outstanding. A and C must be on the wire with different ids and each gets its own reply.
func VerifC08RejectedCall() {
	msgID = 6
	s, adp := c08Setup(50)
	s.manager = &c08RejMgr{adp}
	var aResp, cResp, rResp requestf.ResponsePacket
	var aErr, cErr error
	var aDone int32
	go func() {
		if !vapi.Engine() {
			time.Sleep(5 * time.Millisecond) // (see c08RejMgr)
		}
		aErr = s.TarsInvoke(current.ContextWithClientCurrent(context.Background()), 0, "a", nil, nil, nil, &aResp)
		atomic.StoreInt32(&aDone, 1)
	}()
	rErr := s.TarsInvoke(current.ContextWithClientCurrent(context.Background()), 0, "reject", nil, nil, nil, &rResp)
	vapi.Check(rErr != nil, "a call for which no adapter is selected fails")
	idA := <-c08Wire // A is on the wire (and unanswered) from here on
	go func() {
		idC := <-c08Wire
		vapi.Check(idC != idA, "concurrently outstanding calls never share an id")
		go adp.Recv(c08Reply(idA, 'A'))
		go adp.Recv(c08Reply(idC, 'C'))
	}()
	cErr = s.TarsInvoke(current.ContextWithClientCurrent(context.Background()), 0, "c", nil, nil, nil, &cResp)
	for atomic.LoadInt32(&aDone) == 0 {
		time.Sleep(10 * time.Millisecond)
	}
	vapi.Quiesce()
	vapi.Check(aErr == nil && cErr == nil, "both accepted calls are answered")
	if aErr == nil && cErr == nil {
		vapi.Check(len(aResp.SBuffer) == 1 && aResp.SBuffer[0] == 'A', "the first caller receives the payload addressed to its id")
		vapi.Check(len(cResp.SBuffer) == 1 && cResp.SBuffer[0] == 'C', "the later caller receives the payload addressed to its id")
	}
	vapi.Check(atomic.LoadInt32(&s.queueLen) == 0, "in-flight counter is back to zero")
	vapi.Reach("c08-rejected-call")
}
