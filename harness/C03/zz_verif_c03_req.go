package requestf

// C03 harnesses over the framework's own checked-in protocol structs (RequestPacket,
// ResponsePacket): encode -> strict reference decoder -> same value; ReadFrom round trip.

import (
	"github.com/TarsCloud/TarsGo/tars/protocol/codec"
	"github.com/TarsCloud/TarsGo/tars/zzverif/vapi"
)

func c03I32(name string, wide bool) int32 {
	v := vapi.Int32(name)
	if !wide {
		vapi.Assume(vapi.And(v >= -128, v <= 127))
	}
	return v
}
func c03Str(name string, max int) string { return vapi.String(name, vapi.Len(name+"len", max)) }

// rotation: members outside the active group keep a fixed small value
func c03Gate(on bool, max int) int {
	if on {
		return max
	}
	return 0
}

func c03Map(name string) map[string]string {
	if !vapi.Bool(name + "has") {
		return nil
	}
	return map[string]string{c03Str(name+"k", 1): c03Str(name+"v", 1)}
}

func c03Bytes(name string, max int) []int8 {
	var out []int8
	for i, n := 0, vapi.Len(name+"n", max); i < n; i++ {
		out = append(out, vapi.Int8(name))
	}
	return out
}

func c03RefMap(r *rr, tag int, require bool) (map[string]string, bool) {
	n := r.mapBegin(tag, require)
	if n < 0 {
		return nil, false
	}
	m := map[string]string{}
	for i := 0; i < n && !r.bad; i++ {
		k := r.strField(0, true, "")
		v := r.strField(1, true, "")
		m[string(k)] = string(v)
	}
	return m, true
}

func c03MapEq(a, b map[string]string) bool {
	ok := len(a) == len(b)
	for k, v := range a {
		g, has := b[k]
		ok = vapi.And(ok, vapi.And(has, g == v))
	}
	return ok
}

func c03BytesEq(raw []byte, b []int8) bool {
	ok := len(raw) == len(b)
	for i := range raw {
		if i < len(b) {
			ok = vapi.And(ok, int8(raw[i]) == b[i])
		}
	}
	return ok
}

func c03I8sEq(a, b []int8) bool {
	ok := len(a) == len(b)
	for i := range a {
		if i < len(b) {
			ok = vapi.And(ok, a[i] == b[i])
		}
	}
	return ok
}

func VerifC03RequestPacket() {
	// group 0..3: one wide scalar each, containers empty; 4: strings and byte vector; 5: maps
	wide := vapi.Choice("group", 6)
	v := RequestPacket{
		IVersion: vapi.Int16("ver"), CPacketType: vapi.Int8("ptype"), IMessageType: c03I32("mtype", wide == 0), IRequestId: c03I32("reqid", wide == 1),
		SServantName: c03Str("servant", c03Gate(wide == 4, 2)), SFuncName: c03Str("func", c03Gate(wide == 4, 2)), SBuffer: c03Bytes("buf", c03Gate(wide == 4, 2)), ITimeout: c03I32("timeout", wide == 2),
	}
	if wide == 5 {
		v.Context, v.Status = c03Map("ctx"), c03Map("status")
	}
	if wide != 3 {
		vapi.Assume(vapi.And(v.IVersion >= -128, v.IVersion <= 127))
	}
	b := codec.NewBuffer()
	vapi.Check(v.WriteTo(b) == nil, "RequestPacket: WriteTo succeeds")
	bs := b.ToBytes()
	r := &rr{b: bs}
	ver := r.intField(1, tyShort, true, 0)
	pt := r.intField(2, tyByte, true, 0)
	mt := r.intField(3, tyInt, true, 0)
	id := r.intField(4, tyInt, true, 0)
	sn := r.strField(5, true, "")
	fn := r.strField(6, true, "")
	raw, _ := r.bytesField(7, true)
	to := r.intField(8, tyInt, true, 0)
	ctx, _ := c03RefMap(r, 9, true)
	st, _ := c03RefMap(r, 10, true)
	vapi.Check(r.atEnd(), "RequestPacket: bytes are a well-formed encoding of the schema")
	ok := vapi.And(ver == int64(v.IVersion), vapi.And(pt == int64(v.CPacketType), vapi.And(mt == int64(v.IMessageType), id == int64(v.IRequestId))))
	ok = vapi.And(ok, vapi.And(string(sn) == v.SServantName, vapi.And(string(fn) == v.SFuncName, to == int64(v.ITimeout))))
	vapi.Check(ok, "RequestPacket: reference decoder reads the scalar members back")
	vapi.Check(c03BytesEq(raw, v.SBuffer), "RequestPacket: reference decoder reads the byte vector back")
	vapi.Check(vapi.And(c03MapEq(v.Context, ctx), c03MapEq(v.Status, st)), "RequestPacket: reference decoder reads the maps back")
	var got RequestPacket
	vapi.Check(got.ReadFrom(codec.NewReader(bs)) == nil, "RequestPacket: ReadFrom succeeds")
	eq := vapi.And(got.IVersion == v.IVersion, vapi.And(got.CPacketType == v.CPacketType, vapi.And(got.IMessageType == v.IMessageType, got.IRequestId == v.IRequestId)))
	eq = vapi.And(eq, vapi.And(got.SServantName == v.SServantName, vapi.And(got.SFuncName == v.SFuncName, got.ITimeout == v.ITimeout)))
	eq = vapi.And(eq, vapi.And(c03I8sEq(got.SBuffer, v.SBuffer), vapi.And(c03MapEq(v.Context, got.Context), c03MapEq(v.Status, got.Status))))
	vapi.Check(eq, "RequestPacket: round trip")
	vapi.Reach("c03-requestpacket")
}

func VerifC03ResponsePacket() {
	wide := vapi.Choice("group", 6)
	v := ResponsePacket{
		IVersion: vapi.Int16("ver"), CPacketType: vapi.Int8("ptype"), IRequestId: c03I32("reqid", wide == 0), IMessageType: c03I32("mtype", wide == 1),
		IRet: c03I32("ret", wide == 2), SBuffer: c03Bytes("buf", c03Gate(wide == 4, 2)), SResultDesc: c03Str("desc", c03Gate(wide == 4, 2)),
	}
	if wide == 5 {
		v.Context, v.Status = c03Map("ctx"), c03Map("status")
	}
	if wide != 3 {
		vapi.Assume(vapi.And(v.IVersion >= -128, v.IVersion <= 127))
	}
	b := codec.NewBuffer()
	vapi.Check(v.WriteTo(b) == nil, "ResponsePacket: WriteTo succeeds")
	bs := b.ToBytes()
	r := &rr{b: bs}
	ver := r.intField(1, tyShort, true, 0)
	pt := r.intField(2, tyByte, true, 0)
	id := r.intField(3, tyInt, true, 0)
	mt := r.intField(4, tyInt, true, 0)
	ret := r.intField(5, tyInt, true, 0)
	raw, _ := r.bytesField(6, true)
	st, _ := c03RefMap(r, 7, true)
	desc := r.strField(8, false, "")
	ctx, _ := c03RefMap(r, 9, false)
	vapi.Check(r.atEnd(), "ResponsePacket: bytes are a well-formed encoding of the schema")
	ok := vapi.And(ver == int64(v.IVersion), vapi.And(pt == int64(v.CPacketType), vapi.And(mt == int64(v.IMessageType), vapi.And(id == int64(v.IRequestId), ret == int64(v.IRet)))))
	vapi.Check(vapi.And(ok, string(desc) == v.SResultDesc), "ResponsePacket: reference decoder reads the scalar members back")
	vapi.Check(c03BytesEq(raw, v.SBuffer), "ResponsePacket: reference decoder reads the byte vector back")
	vapi.Check(vapi.And(c03MapEq(v.Context, ctx), c03MapEq(v.Status, st)), "ResponsePacket: reference decoder reads the maps back")
	var got ResponsePacket
	vapi.Check(got.ReadFrom(codec.NewReader(bs)) == nil, "ResponsePacket: ReadFrom succeeds")
	eq := vapi.And(got.IVersion == v.IVersion, vapi.And(got.CPacketType == v.CPacketType, vapi.And(got.IMessageType == v.IMessageType, vapi.And(got.IRequestId == v.IRequestId, got.IRet == v.IRet))))
	eq = vapi.And(eq, vapi.And(got.SResultDesc == v.SResultDesc, vapi.And(c03I8sEq(got.SBuffer, v.SBuffer), vapi.And(c03MapEq(v.Context, got.Context), c03MapEq(v.Status, got.Status)))))
	vapi.Check(eq, "ResponsePacket: round trip")
	vapi.Reach("c03-responsepacket")
}
