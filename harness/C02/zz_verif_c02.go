package codec

// C02 harnesses: primitive codec round trip and wire-format conformance.
// The reference encoder below is written from the Tars wire format description,
// independently of codec.go.

import (
	"math"

	"github.com/TarsCloud/TarsGo/tars/zzverif/vapi"
)

// refHead: type/tag head byte, extended tag from 15.
func refHead(ty byte, tag byte) []byte {
	if tag < 15 {
		return []byte{tag<<4 | ty}
	}
	return []byte{0xF0 | ty, tag}
}

// refInt: narrowest of ZeroTag/BYTE/SHORT/INT/LONG, big-endian two's complement.
func refInt(tag byte, v int64) []byte {
	switch {
	case v == 0:
		return refHead(12, tag)
	case v >= -128 && v <= 127:
		return append(refHead(0, tag), byte(v))
	case v >= -32768 && v <= 32767:
		return append(refHead(1, tag), byte(v>>8), byte(v))
	case v >= -2147483648 && v <= 2147483647:
		return append(refHead(2, tag), byte(v>>24), byte(v>>16), byte(v>>8), byte(v))
	}
	return append(refHead(3, tag), byte(v>>56), byte(v>>48), byte(v>>40), byte(v>>32), byte(v>>24), byte(v>>16), byte(v>>8), byte(v))
}

func refF32(tag byte, bits uint32) []byte {
	return append(refHead(4, tag), byte(bits>>24), byte(bits>>16), byte(bits>>8), byte(bits))
}

func refF64(tag byte, b uint64) []byte {
	return append(refHead(5, tag), byte(b>>56), byte(b>>48), byte(b>>40), byte(b>>32), byte(b>>24), byte(b>>16), byte(b>>8), byte(b))
}

func refString(tag byte, s []byte) []byte {
	var out []byte
	if len(s) > 255 {
		n := uint32(len(s))
		out = append(refHead(7, tag), byte(n>>24), byte(n>>16), byte(n>>8), byte(n))
	} else {
		out = append(refHead(6, tag), byte(len(s)))
	}
	return append(out, s...)
}

// c02end checks that the reader consumed exactly the field and that a sentinel after it is untouched.
func c02end(r *Reader, what string) {
	vapi.Check(r.buf.Len() == 1, what+": cursor at end of field")
	b, err := r.buf.ReadByte()
	vapi.Check(err == nil && b == 0xAB, what+": sentinel intact")
}

func withSentinel(bs []byte) []byte {
	out := make([]byte, len(bs)+1)
	copy(out, bs)
	out[len(bs)] = 0xAB
	return out
}

func VerifC02Int8() {
	tag, v := vapi.Byte("tag"), vapi.Int8("v")
	b := NewBuffer()
	vapi.Check(b.WriteInt8(v, tag) == nil, "int8 write ok")
	bs := b.ToBytes()
	vapi.Check(vapi.BytesEq(bs, refInt(tag, int64(v))), "int8 wire format")
	in := withSentinel(bs)
	var o8 int8 = 77
	r := NewReader(in)
	vapi.Check(r.ReadInt8(&o8, tag, true) == nil && o8 == v, "int8 round trip")
	c02end(r, "int8")
	var o16 int16 = 77
	r = NewReader(in)
	vapi.Check(r.ReadInt16(&o16, tag, true) == nil && o16 == int16(v), "int8->int16")
	c02end(r, "int8->int16")
	var o32 int32 = 77
	r = NewReader(in)
	vapi.Check(r.ReadInt32(&o32, tag, true) == nil && o32 == int32(v), "int8->int32")
	c02end(r, "int8->int32")
	var o64 int64 = 77
	r = NewReader(in)
	vapi.Check(r.ReadInt64(&o64, tag, true) == nil && o64 == int64(v), "int8->int64")
	c02end(r, "int8->int64")
	vapi.Reach("c02-int8")
}

func VerifC02Bool() {
	tag, v := vapi.Byte("tag"), vapi.Bool("v")
	b := NewBuffer()
	vapi.Check(b.WriteBool(v, tag) == nil, "bool write ok")
	bs := b.ToBytes()
	var iv int64
	if v {
		iv = 1
	}
	vapi.Check(vapi.BytesEq(bs, refInt(tag, iv)), "bool wire format")
	in := withSentinel(bs)
	o := !v
	r := NewReader(in)
	vapi.Check(r.ReadBool(&o, tag, true) == nil && o == v, "bool round trip")
	c02end(r, "bool")
	var o8 int8 = 77
	r = NewReader(in)
	vapi.Check(r.ReadInt8(&o8, tag, true) == nil && int64(o8) == iv, "bool via int8")
	vapi.Reach("c02-bool")
}

func VerifC02Uint8() {
	tag, v := vapi.Byte("tag"), vapi.Uint8("v")
	b := NewBuffer()
	vapi.Check(b.WriteUint8(v, tag) == nil, "uint8 write ok")
	bs := b.ToBytes()
	vapi.Check(vapi.BytesEq(bs, refInt(tag, int64(v))), "uint8 wire format")
	in := withSentinel(bs)
	var o uint8 = 77
	r := NewReader(in)
	vapi.Check(r.ReadUint8(&o, tag, true) == nil && o == v, "uint8 round trip")
	c02end(r, "uint8")
	var o16 uint16 = 77
	r = NewReader(in)
	vapi.Check(r.ReadUint16(&o16, tag, true) == nil && o16 == uint16(v), "uint8->uint16")
	c02end(r, "uint8->uint16")
	var o32 uint32 = 77
	r = NewReader(in)
	vapi.Check(r.ReadUint32(&o32, tag, true) == nil && o32 == uint32(v), "uint8->uint32")
	c02end(r, "uint8->uint32")
	vapi.Reach("c02-uint8")
}

func VerifC02Int16() {
	tag, v := vapi.Byte("tag"), vapi.Int16("v")
	b := NewBuffer()
	vapi.Check(b.WriteInt16(v, tag) == nil, "int16 write ok")
	bs := b.ToBytes()
	vapi.Check(vapi.BytesEq(bs, refInt(tag, int64(v))), "int16 wire format")
	in := withSentinel(bs)
	var o16 int16 = 77
	r := NewReader(in)
	vapi.Check(r.ReadInt16(&o16, tag, true) == nil && o16 == v, "int16 round trip")
	c02end(r, "int16")
	var o32 int32 = 77
	r = NewReader(in)
	vapi.Check(r.ReadInt32(&o32, tag, true) == nil && o32 == int32(v), "int16->int32")
	c02end(r, "int16->int32")
	var o64 int64 = 77
	r = NewReader(in)
	vapi.Check(r.ReadInt64(&o64, tag, true) == nil && o64 == int64(v), "int16->int64")
	c02end(r, "int16->int64")
	vapi.Reach("c02-int16")
}

func VerifC02Uint16() {
	tag, v := vapi.Byte("tag"), vapi.Uint16("v")
	b := NewBuffer()
	vapi.Check(b.WriteUint16(v, tag) == nil, "uint16 write ok")
	bs := b.ToBytes()
	vapi.Check(vapi.BytesEq(bs, refInt(tag, int64(v))), "uint16 wire format")
	in := withSentinel(bs)
	var o uint16 = 77
	r := NewReader(in)
	vapi.Check(r.ReadUint16(&o, tag, true) == nil && o == v, "uint16 round trip")
	c02end(r, "uint16")
	var o32 uint32 = 77
	r = NewReader(in)
	vapi.Check(r.ReadUint32(&o32, tag, true) == nil && o32 == uint32(v), "uint16->uint32")
	c02end(r, "uint16->uint32")
	vapi.Reach("c02-uint16")
}

func VerifC02Int32() {
	tag, v := vapi.Byte("tag"), vapi.Int32("v")
	b := NewBuffer()
	vapi.Check(b.WriteInt32(v, tag) == nil, "int32 write ok")
	bs := b.ToBytes()
	vapi.Check(vapi.BytesEq(bs, refInt(tag, int64(v))), "int32 wire format")
	in := withSentinel(bs)
	var o32 int32 = 77
	r := NewReader(in)
	vapi.Check(r.ReadInt32(&o32, tag, true) == nil && o32 == v, "int32 round trip")
	c02end(r, "int32")
	var o64 int64 = 77
	r = NewReader(in)
	vapi.Check(r.ReadInt64(&o64, tag, true) == nil && o64 == int64(v), "int32->int64")
	c02end(r, "int32->int64")
	vapi.Reach("c02-int32")
}

func VerifC02Uint32() {
	tag, v := vapi.Byte("tag"), vapi.Uint32("v")
	b := NewBuffer()
	vapi.Check(b.WriteUint32(v, tag) == nil, "uint32 write ok")
	bs := b.ToBytes()
	vapi.Check(vapi.BytesEq(bs, refInt(tag, int64(v))), "uint32 wire format")
	in := withSentinel(bs)
	var o uint32 = 77
	r := NewReader(in)
	vapi.Check(r.ReadUint32(&o, tag, true) == nil && o == v, "uint32 round trip")
	c02end(r, "uint32")
	vapi.Reach("c02-uint32")
}

func VerifC02Int64() {
	tag, v := vapi.Byte("tag"), vapi.Int64("v")
	b := NewBuffer()
	vapi.Check(b.WriteInt64(v, tag) == nil, "int64 write ok")
	bs := b.ToBytes()
	vapi.Check(vapi.BytesEq(bs, refInt(tag, v)), "int64 wire format")
	in := withSentinel(bs)
	var o int64 = 77
	r := NewReader(in)
	vapi.Check(r.ReadInt64(&o, tag, true) == nil && o == v, "int64 round trip")
	c02end(r, "int64")
	vapi.Reach("c02-int64")
}

func VerifC02Float32() {
	tag, bits := vapi.Byte("tag"), vapi.Uint32("bits")
	v := math.Float32frombits(bits)
	b := NewBuffer()
	vapi.Check(b.WriteFloat32(v, tag) == nil, "float32 write ok")
	bs := b.ToBytes()
	vapi.Check(vapi.BytesEq(bs, refF32(tag, bits)), "float32 wire format")
	in := withSentinel(bs)
	var o float32 = 7
	r := NewReader(in)
	vapi.Check(r.ReadFloat32(&o, tag, true) == nil && math.Float32bits(o) == bits, "float32 round trip bit-exact")
	c02end(r, "float32")
	var o64 float64 = 7
	r = NewReader(in)
	err := r.ReadFloat64(&o64, tag, true)
	vapi.Check(err == nil, "float32->float64 accepted")
	// same numeric value: NaN maps to NaN, everything else compares equal (incl. -0 == 0 sign checked by bits)
	if v != v {
		vapi.Check(o64 != o64, "float32->float64 NaN")
	} else {
		vapi.Check(o64 == float64(v), "float32->float64 value")
		vapi.Check(math.Float64bits(o64)>>63 == uint64(bits>>31), "float32->float64 sign")
	}
	c02end(r, "float32->float64")
	vapi.Reach("c02-float32")
}

func VerifC02Float64() {
	tag, bits := vapi.Byte("tag"), vapi.Uint64("bits")
	v := math.Float64frombits(bits)
	b := NewBuffer()
	vapi.Check(b.WriteFloat64(v, tag) == nil, "float64 write ok")
	bs := b.ToBytes()
	vapi.Check(vapi.BytesEq(bs, refF64(tag, bits)), "float64 wire format")
	in := withSentinel(bs)
	var o float64 = 7
	r := NewReader(in)
	vapi.Check(r.ReadFloat64(&o, tag, true) == nil && math.Float64bits(o) == bits, "float64 round trip bit-exact")
	c02end(r, "float64")
	vapi.Reach("c02-float64")
}

// VerifC02String: lengths 0..maxLen with all bytes symbolic.
func c02String(n int) {
	tag := vapi.Byte("tag")
	raw := vapi.Bytes("s", n)
	s := string(raw)
	b := NewBuffer()
	vapi.Check(b.WriteString(s, tag) == nil, "string write ok")
	bs := b.ToBytes()
	vapi.Check(vapi.BytesEq(bs, refString(tag, raw)), "string wire format")
	in := withSentinel(bs)
	o := "zz"
	r := NewReader(in)
	vapi.Check(r.ReadString(&o, tag, true) == nil, "string read ok")
	vapi.Check(len(o) == n && vapi.BytesEq([]byte(o), raw), "string round trip")
	c02end(r, "string")
}

func VerifC02StringShort() {
	n := vapi.Len("n", 4)
	c02String(n)
	vapi.Reach("c02-string-short")
}

func VerifC02StringBoundary() {
	n := 254 + vapi.Len("n", 3) // 254..257: STRING1/STRING4 boundary
	c02String(n)
	vapi.Reach("c02-string-boundary")
}
