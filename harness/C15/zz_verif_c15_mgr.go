package tars

// C15 harness, layer 2: k-step runs of the real endpointManager (checkStatus, SelectAdapterProxy,
// addAliveEp, updateActiveEp with the real selectors) and the real AdapterProxy accounting for
// two registry endpoints, driven by a symbolic script of call outcomes, clock advances, status
// checks and selections. The reinstatement branch of doInvoke (`adp.reset(); addAliveEp(ep)`) is
// mirrored by the harness when a probe call succeeds.

import (
	"math/rand"
	"sync"
	"time"

	"github.com/TarsCloud/TarsGo/tars/protocol/res/endpointf"
	"github.com/TarsCloud/TarsGo/tars/util/endpoint"
	"github.com/TarsCloud/TarsGo/tars/zzverif/vapi"
)

type c15Ref struct {
	blocked    bool
	fails      int   // failures since (re)instatement
	streak     int   // consecutive failures
	lastOK     int64 // virtual seconds of the last success / reinstatement
	lastProbe  int64 // virtual seconds when the endpoint was last handed out as probe candidate (or blocked)
	probesOut  int   // probe hand-outs since lastProbe stamp window
}

func c15NowSec() int64 { return time.Now().Unix() }

func c15Mgr() (*endpointManager, [2]endpointf.EndpointF) {
	comm := &Communicator{Client: &clientConfig{ObjQueueMax: 100, ClientReadTimeout: 100 * time.Millisecond}, app: &application{allFilters: &filters{}}}
	e := &endpointManager{objName: "obj", comm: comm, freshLock: &sync.Mutex{}, epList: &sync.Map{}, epLock: &sync.Mutex{}, checkAdapterList: &sync.Map{},
		rand: rand.New(rand.NewSource(1)), checkAdapter: make(chan *AdapterProxy, 8)}
	epfs := [2]endpointf.EndpointF{{Host: "10.0.0.1", Port: 1, Timeout: 3000, Istcp: 1}, {Host: "10.0.0.2", Port: 2, Timeout: 3000, Istcp: 1}}
	e.activeEpf = epfs[:]
	e.updateActiveEp([]endpoint.Endpoint{endpoint.Tars2endpoint(epfs[0]), endpoint.Tars2endpoint(epfs[1])})
	return e, epfs
}

func c15Index(adp *AdapterProxy) int {
	if adp.GetPoint().Host == "10.0.0.1" {
		return 0
	}
	return 1
}

func c15Manager(steps int) {
	e, epfs := c15Mgr()
	msg := &Message{}
	// create both adapters through the real selection path (round-robin serves both)
	var adps [2]*AdapterProxy
	for i := 0; i < 4 && (adps[0] == nil || adps[1] == nil); i++ {
		a, need := e.SelectAdapterProxy(msg)
		vapi.Check(a != nil && !need, "initial selections return plain active adapters")
		if a != nil {
			adps[c15Index(a)] = a
		}
	}
	vapi.Assume(adps[0] != nil && adps[1] != nil)
	var ref [2]c15Ref
	start := c15NowSec()
	ref[0].lastOK, ref[1].lastOK = start, start
	for i := range adps {
		adps[i].lastSuccessTime = start
		adps[i].lastCheckTime = start
	}
	for st := 0; st < steps; st++ {
		switch vapi.Choice("act", 4) {
		case 0: // a burst of failed calls on one endpoint (5 in a row), spread over 5 s
			x := vapi.Choice("ep", 2)
			for k := 0; k < 5; k++ {
				adps[x].sendAdd()
				adps[x].failAdd()
			}
			ref[x].fails += 5
			ref[x].streak += 5
			vapi.Advance(int64(5 * time.Second))
		case 1: // one successful call on one endpoint
			x := vapi.Choice("ep", 2)
			adps[x].sendAdd()
			adps[x].successAdd()
			ref[x].streak = 0
			ref[x].lastOK = c15NowSec()
		case 2: // time passes
			vapi.Advance(int64(time.Duration(1+vapi.Choice("secs", 2)*30) * time.Second)) // 1 s or 31 s
		case 3: // status check followed by selections
			was := [2]bool{adps[0].status, adps[1].status}
			e.checkStatus()
			now := c15NowSec()
			for x := 0; x < 2; x++ {
				if was[x] && !adps[x].status {
					vapi.Check(ref[x].fails >= 2, "manager: never blocked with fewer than two failures since (re)instatement")
					ref[x].blocked = true
				}
				if ref[x].fails == 0 {
					vapi.Check(adps[x].status, "manager: an endpoint with no failed calls is never taken out of rotation")
				}
				if was[x] && ref[x].streak >= 5 && now-ref[x].lastOK >= 5 {
					vapi.Check(!adps[x].status, "manager: 5 failures in a row for 5 s: blocked by the next status check")
				}
			}
			// selections: blocked endpoints are not served by normal rotation while another is active
			probed := [2]int{}
			for k := 0; k < 3; k++ {
				a, need := e.SelectAdapterProxy(msg)
				vapi.Check(a != nil, "manager: a call is always attempted on some endpoint")
				if a == nil {
					continue
				}
				x := c15Index(a)
				if need {
					probed[x]++
					vapi.Check(!adps[x].status, "manager: only blocked endpoints are handed out as probe candidates")
					// the probe call: success reinstates (mirror of doInvoke's branch), failure keeps it blocked
					if vapi.Bool("probeok") {
						a.sendAdd()
						a.successAdd()
						a.reset()
						e.addAliveEp(endpoint.Tars2endpoint(epfs[x]))
						ref[x] = c15Ref{lastOK: c15NowSec()}
						vapi.Check(adps[x].status, "manager: a successful probe reinstates the endpoint")
					} else {
						a.sendAdd()
						a.failAdd()
						ref[x].fails++
						ref[x].streak++
						vapi.Check(!adps[x].status, "manager: a failed probe leaves the endpoint blocked")
					}
				} else if !adps[0].status != !adps[1].status {
					// exactly one endpoint is blocked: normal rotation serves only the active one
					vapi.Check(adps[x].status, "manager: a blocked endpoint is out of normal rotation while another endpoint is active")
				}
			}
			for x := 0; x < 2; x++ {
				vapi.Check(probed[x] <= 1, "manager: a blocked endpoint is probed with a single call per status check")
			}
		}
	}
	vapi.Reach("c15-manager")
}

func VerifC15Manager()     { c15Manager(3) }
func VerifC15ManagerLong() { c15Manager(4) }
