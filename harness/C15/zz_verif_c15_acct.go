package tars

// C15 harness, accounting at the source: the health record that checkActive judges is fed by the
// real call path. One call through doInvoke -> AdapterProxy.Send -> TarsClient (in-memory
// connection of the C09 harness) against a prompt, silent or refusing peer must be counted as
// exactly one sent call and exactly one success or exactly one failure ("none is taken out with
// fewer than two failures" presupposes that one failed call is one failure).

import (
	"sync/atomic"
	"time"

	"github.com/TarsCloud/TarsGo/tars/transport"
	"github.com/TarsCloud/TarsGo/tars/zzverif/vapi"
)

func VerifC15CallAccounting() {
	msgID = 10
	c09Mode = []int{c09Prompt, c09Silent, c09Refuse, c09Close}[vapi.Choice("peer", 4)]
	c09DialCost = 0
	c09Dials = 0
	s, adp := c09Setup(2, 50*time.Millisecond)
	if !vapi.Engine() {
		adp.conf.Proto = "tcp"
		adp.tarsClient = transport.NewTarsClient(c09NativeServer(), adp, adp.conf)
	}
	var c c09Call
	c09Invoke(s, &c)
	vapi.Quiesce()
	sent, ok, fail, streak := atomic.LoadInt32(&adp.sendCount), atomic.LoadInt32(&adp.successCount), atomic.LoadInt32(&adp.failCount), atomic.LoadInt32(&adp.lastFailCount)
	vapi.Check(sent == 1, "one call is counted as one sent call")
	if c.err == nil {
		vapi.Check(ok == 1 && fail == 0 && streak == 0, "a successful call is counted as exactly one success and no failure")
	} else {
		vapi.Check(ok == 0 && fail == 1 && streak == 1, "a failed call is counted as exactly one failure")
	}
	vapi.Reach("c15-call-accounting")
}
