package tars

// C15 harness, probing: a blocked endpoint is probed with a single call, no more often than
// every 30 s, stays blocked while probes fail, IS probed again once 30 s have passed since the
// last probe, and returns to rotation as soon as a probe succeeds. A fixed failure history on
// endpoint 0 of a two-endpoint manager (real checkStatus / SelectAdapterProxy / addAliveEp and
// selectors), with the probe outcomes and the gap between status checks symbolic.
// ReConnect succeeds (engine: redirected to VerifC15ReConnectOK; natively two loopback
// listeners); time: virtual clock in the engine, natively the adapters' time stamps are aged.

import (
	"math/rand"
	"net"
	"sync"
	"time"

	"github.com/TarsCloud/TarsGo/tars/protocol/res/endpointf"
	"github.com/TarsCloud/TarsGo/tars/transport"
	"github.com/TarsCloud/TarsGo/tars/util/endpoint"
	"github.com/TarsCloud/TarsGo/tars/zzverif/vapi"
)

// redirect target of (*transport.TarsClient).ReConnect in the engine
func VerifC15ReConnectOK(tc *transport.TarsClient) error { return nil }

var c15Adps [2]*AdapterProxy

// time passes: virtual clock in the engine; natively every time stamp of the adapters is aged
func c15Pass(secs int64) {
	if vapi.Engine() {
		vapi.Advance(secs * int64(time.Second))
		return
	}
	for _, a := range c15Adps {
		if a != nil {
			a.lastSuccessTime -= secs
			a.lastBlockTime -= secs
			a.lastCheckTime -= secs
			a.lastKeepAliveTime -= secs
		}
	}
}

func c15Listen(host string) int32 {
	ln, err := net.Listen("tcp", host+":0")
	if err != nil {
		panic(err)
	}
	go func() {
		for {
			c, err := ln.Accept()
			if err != nil {
				return
			}
			_ = c
		}
	}()
	return int32(ln.Addr().(*net.TCPAddr).Port)
}

// three selections after a status check: how often endpoint 0 was handed out as probe candidate
// and how often by normal rotation
func c15Selections(e *endpointManager, hosts [2]string) (probes, normal int, probe *AdapterProxy) {
	msg := &Message{}
	for k := 0; k < 3; k++ {
		a, need := e.SelectAdapterProxy(msg)
		vapi.Check(a != nil, "probing: a call is always attempted on some endpoint")
		if a == nil {
			continue
		}
		if a.GetPoint().Host == hosts[0] {
			if need {
				probes++
				probe = a
			} else {
				normal++
			}
		} else {
			vapi.Check(!need, "probing: the healthy endpoint is never a probe candidate")
		}
	}
	return
}

func VerifC15Reprobe() {
	hosts := [2]string{"10.0.0.1", "10.0.0.2"}
	ports := [2]int32{1, 2}
	if !vapi.Engine() {
		hosts = [2]string{"127.0.0.1", "127.0.0.2"}
		ports = [2]int32{c15Listen(hosts[0]), c15Listen(hosts[1])}
	}
	comm := &Communicator{Client: &clientConfig{ObjQueueMax: 100, ClientReadTimeout: 100 * time.Millisecond, ClientDialTimeout: time.Second}, app: &application{allFilters: &filters{}}}
	e := &endpointManager{objName: "obj", comm: comm, freshLock: &sync.Mutex{}, epList: &sync.Map{}, epLock: &sync.Mutex{}, checkAdapterList: &sync.Map{},
		rand: rand.New(rand.NewSource(1)), checkAdapter: make(chan *AdapterProxy, 8)}
	epfs := []endpointf.EndpointF{{Host: hosts[0], Port: ports[0], Timeout: 3000, Istcp: 1}, {Host: hosts[1], Port: ports[1], Timeout: 3000, Istcp: 1}}
	e.activeEpf = epfs
	e.updateActiveEp([]endpoint.Endpoint{endpoint.Tars2endpoint(epfs[0]), endpoint.Tars2endpoint(epfs[1])})
	msg := &Message{}
	for i := 0; i < 4 && (c15Adps[0] == nil || c15Adps[1] == nil); i++ {
		a, _ := e.SelectAdapterProxy(msg)
		if a != nil {
			if a.GetPoint().Host == hosts[0] {
				c15Adps[0] = a
			} else {
				c15Adps[1] = a
			}
		}
	}
	vapi.Check(c15Adps[0] != nil && c15Adps[1] != nil, "probing: both endpoints are served initially")
	if c15Adps[0] == nil || c15Adps[1] == nil {
		return
	}
	a0 := c15Adps[0]
	now := time.Now().Unix()
	for _, a := range c15Adps {
		a.lastSuccessTime, a.lastCheckTime = now, now
	}
	// endpoint 0 fails 5 times in a row over 5 s; endpoint 1 keeps succeeding
	for k := 0; k < 5; k++ {
		a0.sendAdd()
		a0.failAdd()
	}
	c15Adps[1].sendAdd()
	c15Adps[1].successAdd()
	c15Pass(5)
	c15Adps[1].sendAdd()
	c15Adps[1].successAdd()
	e.checkStatus()
	vapi.Check(!a0.status, "probing: 5 failures in a row for 5 s: blocked by the next status check")
	vapi.Check(c15Adps[1].status, "probing: the healthy endpoint stays in rotation")
	p, n, _ := c15Selections(e, hosts)
	vapi.Check(p == 0 && n == 0, "probing: a freshly blocked endpoint is neither served nor probed before 30 s have passed")
	if vapi.Bool("latesuccess") {
		// an older, slow call on the blocked endpoint completes successfully after the block
		// (not a probe): it must not stop the endpoint from being probed later
		a0.successAdd()
	}
	// 31 s later: exactly one probe
	c15Pass(31)
	c15Adps[1].sendAdd()
	c15Adps[1].successAdd()
	e.checkStatus()
	p, n, pa := c15Selections(e, hosts)
	vapi.Check(p == 1, "probing: a blocked endpoint is probed with a single call once 30 s have passed")
	vapi.Check(n == 0, "probing: a blocked endpoint is out of normal rotation")
	if pa == nil {
		return
	}
	if !vapi.Bool("firstprobeok") {
		pa.sendAdd()
		pa.failAdd()
		vapi.Check(!a0.status, "probing: a failed probe leaves the endpoint blocked")
		// the next status check comes 1 s or 31 s later
		late := vapi.Bool("late")
		if late {
			c15Pass(31)
		} else {
			c15Pass(1)
		}
		c15Adps[1].sendAdd()
		c15Adps[1].successAdd()
		e.checkStatus()
		p, n, pa = c15Selections(e, hosts)
		vapi.Check(n == 0, "probing: still out of normal rotation")
		if late {
			vapi.Check(p == 1, "probing: a blocked endpoint is probed again once 30 s have passed since the last probe")
		} else {
			vapi.Check(p == 0, "probing: no more often than every 30 s")
		}
		if pa == nil {
			vapi.Reach("c15-reprobe")
			return
		}
	}
	// a successful probe (doInvoke's reinstatement branch): back in rotation at once
	pa.sendAdd()
	pa.successAdd()
	pa.reset()
	e.addAliveEp(endpoint.Tars2endpoint(*pa.GetPoint()))
	vapi.Check(a0.status, "probing: a successful probe reinstates the endpoint")
	p, n, _ = c15Selections(e, hosts)
	vapi.Check(p == 0 && n >= 1, "probing: a reinstated endpoint is served by normal rotation again")
	vapi.Reach("c15-reprobe")
}
