package tars

// C15 harnesses, layer 1: one inductive step of the endpoint health record from an
// arbitrary state satisfying the representation invariant.

import (
	"time"

	"github.com/TarsCloud/TarsGo/tars/protocol/res/endpointf"
	"github.com/TarsCloud/TarsGo/tars/transport"
	"github.com/TarsCloud/TarsGo/tars/zzverif/vapi"
)

type c15State struct {
	status                                            bool
	failCount, lastFailCount, sendCount, successCount int32
	lastSuccessTime, lastBlockTime, lastCheckTime     int64
}

func c15Snapshot(c *AdapterProxy) c15State {
	return c15State{c.status, c.failCount, c.lastFailCount, c.sendCount, c.successCount, c.lastSuccessTime, c.lastBlockTime, c.lastCheckTime}
}

// representation invariant of the health record at time now
func c15Inv(s c15State, now int64) bool {
	ok := vapi.And(s.lastFailCount >= 0, s.lastFailCount <= s.failCount)
	ok = vapi.And(ok, s.failCount <= s.sendCount)
	ok = vapi.And(ok, vapi.And(s.successCount >= 0, s.successCount <= s.sendCount))
	ok = vapi.And(ok, vapi.And(s.lastSuccessTime >= 0, s.lastSuccessTime <= now))
	ok = vapi.And(ok, vapi.And(s.lastBlockTime >= 0, s.lastBlockTime <= now))
	ok = vapi.And(ok, vapi.And(s.lastCheckTime >= 0, s.lastCheckTime <= now))
	return ok
}

// arbitrary adapter in an arbitrary valid state; the clock is an arbitrary instant
func c15Adapter() (*AdapterProxy, int64) {
	vapi.Setting("clock-sym-seconds", 1<<40)
	now := time.Now().Unix()
	pt := &endpointf.EndpointF{Host: "10.0.0.1", Port: 1, Istcp: 1}
	conf := &transport.TarsClientConf{Proto: "tcp"}
	c := &AdapterProxy{point: pt, conf: conf}
	c.tarsClient = transport.NewTarsClient("10.0.0.1:1", c, conf)
	c.status = vapi.Bool("status")
	c.failCount = vapi.Int32("failCount")
	c.lastFailCount = vapi.Int32("lastFailCount")
	c.sendCount = vapi.Int32("sendCount")
	c.successCount = vapi.Int32("successCount")
	// times are given as ages relative to now (so that a native replay, which reads the real
	// clock, follows the same path): 0 <= age <= 10^9 s
	a1, a2, a3 := vapi.Int64("successAge"), vapi.Int64("blockAge"), vapi.Int64("checkAge")
	const maxAge = 1000000000 // ~31 years
	vapi.Assume(vapi.And(vapi.And(a1 >= 0, a1 <= maxAge), vapi.And(vapi.And(a2 >= 0, a2 <= maxAge), vapi.And(a3 >= 0, a3 <= maxAge))))
	c.lastSuccessTime = now - a1
	c.lastBlockTime = now - a2
	c.lastCheckTime = now - a3
	// counters stay far from the int32 limit (2^31 calls without reinstatement are outside the claim)
	vapi.Assume(c.sendCount < 1<<12) // bound: keeps the float32 ratio query tractable for the solver
	vapi.Assume(c15Inv(c15Snapshot(c), now))
	return c, now
}

// VerifC15StepCounters: failAdd / successAdd (after sendAdd) and reset preserve the invariant.
func VerifC15StepCounters() {
	c, now := c15Adapter()
	pre := c15Snapshot(c)
	switch vapi.Choice("step", 3) {
	case 0:
		c.sendAdd()
		c.failAdd()
		post := c15Snapshot(c)
		vapi.Check(c15Inv(post, now), "failAdd preserves the invariant")
		vapi.Check(vapi.And(post.failCount == pre.failCount+1, post.lastFailCount == pre.lastFailCount+1), "failAdd counts one failure")
		vapi.Check(post.status == pre.status, "failAdd does not change the status")
	case 1:
		c.sendAdd()
		c.successAdd()
		post := c15Snapshot(c)
		vapi.Check(c15Inv(post, now), "successAdd preserves the invariant")
		vapi.Check(vapi.And(post.lastFailCount == 0, post.lastSuccessTime == now), "successAdd clears the failure streak and stamps the time")
		vapi.Check(post.status == pre.status, "successAdd does not change the status")
	case 2:
		c.reset()
		post := c15Snapshot(c)
		vapi.Check(c15Inv(post, now), "reset preserves the invariant")
		vapi.Check(vapi.And(post.status, vapi.And(post.failCount == 0, post.sendCount == 0)), "reset reinstates with zero counters")
		vapi.Check(vapi.And(post.lastBlockTime == now, post.lastCheckTime == now), "reset stamps block/check time")
	}
	vapi.Reach("c15-step-counters")
}

// VerifC15CheckActive: one status check from an arbitrary valid state.
func VerifC15CheckActive() {
	c, now := c15Adapter()
	pre := c15Snapshot(c)
	first, need := c.checkActive()
	post := c15Snapshot(c)
	vapi.Check(c15Inv(post, now), "checkActive preserves the invariant")
	// taken out of rotation only with >= 2 failures since (re)instatement
	if pre.status && !post.status {
		vapi.Check(first, "leaving rotation is reported as firstTime")
		vapi.Check(pre.failCount >= 2, "never blocked with fewer than two failures")
		vapi.Check(post.lastBlockTime == now, "block time stamped")
	}
	if pre.failCount == 0 {
		vapi.Check(post.status == pre.status, "an endpoint with no failed calls is never taken out of rotation")
	}
	if first {
		vapi.Check(vapi.And(pre.status, !post.status), "firstTime only when the endpoint is blocked by this check")
	}
	// at least 5 failures in a row for at least 5 seconds => blocked by this check
	if pre.status && pre.lastFailCount >= 5 && now-pre.lastSuccessTime >= 5 {
		vapi.Check(vapi.And(first, !post.status), "5 failures in a row for 5s: blocked at the next status check")
	}
	// probing: at most one per 30 s
	if need {
		vapi.Check(!pre.status, "only blocked endpoints are probed")
		vapi.Check(now-pre.lastBlockTime >= 30, "a blocked endpoint is probed no more often than every 30 s")
		vapi.Check(post.lastBlockTime == now, "probe time stamped so that the next probe is >= 30 s later")
	}
	if !pre.status {
		vapi.Check(!post.status, "a blocked endpoint stays blocked until a probe succeeds")
		if now-pre.lastBlockTime < 30 {
			vapi.Check(!need, "no probe before 30 s have passed")
		}
	}
	vapi.Reach("c15-checkactive")
}
