#!/usr/bin/env python3
"""store_seed.py <name> <property> <seed tmp dir> <demo pkg dir> <detected_by> <needs...>"""
import sys, os, shutil, json, glob
name, prop, src, pkg, det = sys.argv[1:6]
needs = " ".join(sys.argv[6:])
d = os.path.join(os.path.dirname(os.path.dirname(os.path.abspath(__file__))), "seeded", name)
os.makedirs(d, exist_ok=True)
for f in glob.glob(os.path.join(src, "*")):
    if os.path.isfile(f) and os.path.getsize(f) < 200000 and not os.path.basename(f).startswith("tars2go"):
        shutil.copy(f, d)
readme = open(os.path.join(src, "README.txt")).read() if os.path.exists(os.path.join(src, "README.txt")) else ""
meta = {"property": prop, "needs_to_manifest": needs, "demo_package_dir": pkg, "detected_by": det,
        "confirmed": "tools/seed.sh confirm: demo passes on the unchanged tree, fails with patch.diff applied; go build ./... succeeds with the patch; existing suite (go test ./tars/...) still passes with the patch (only the baseline always-fail TestKetamaHashAlg_Hash/2.2.2.2 fails)",
        "author_readme": readme[:1500]}
json.dump(meta, open(os.path.join(d, "meta.json"), "w"), indent=1)
print("stored", d)
