#!/usr/bin/env python3
"""Regenerates MANIFEST.json from harness/*/harness.json ("manifest" section) and tools/na.json."""
import json, os, glob
V = os.path.dirname(os.path.dirname(os.path.abspath(__file__)))
props = [json.loads(l) for l in open(os.path.join(V, "properties.jsonl"))]
checks, claimed = [], set()
for p in props:
    hp = os.path.join(V, "harness", p["id"], "harness.json")
    if not os.path.exists(hp):
        continue
    hj = json.load(open(hp))
    m = hj.get("manifest")
    if not m:
        continue
    claimed.add(p["id"])
    c = {
        "property_id": p["id"],
        "quick_cmd": "./check %s quick" % p["id"],
        "thorough_cmd": "./check %s thorough" % p["id"],
        "evidence_file": "evidence/%s.json" % p["id"],
        "replay_cmd_template": "./check %s quick --replay {path}" % p["id"],
        "engine": "gosym",
        "level_claimed": {"category": "model_checking", "text": m["level_text"], "design_ref": m.get("design_ref", "DESIGN.md section 4, " + p["id"])},
        "level_note": m["level_note"],
        "technique": m.get("technique", "bounded symbolic execution of the real Go code from go/ssa + SMT (z3), counterexamples replayed natively"),
    }
    checks.append(c)
na_file = os.path.join(V, "tools", "na.json")
na_reasons = json.load(open(na_file)) if os.path.exists(na_file) else {}
na = []
for p in props:
    if p["id"] not in claimed:
        na.append({"property_id": p["id"], "reason": na_reasons.get(p["id"], "check not built yet (engine under construction); will be claimed once its solver-based check runs clean on the unchanged tree")})
hooks_file = os.path.join(V, "tools", "hooks.json")
hooks_extra = json.load(open(hooks_file)) if os.path.exists(hooks_file) else {}
man = {
    "version": 1,
    "setup_cmd": "cd engine && GOFLAGS=-mod=mod GOPROXY=off GOSUMDB=off GOTOOLCHAIN=local go build -o ../bin/gosym ./cmd/gosym",
    "hooks": dict({
        "guard": "verif",
        "enable": "checks copy /repo's working tree to a scratch directory and add harness files (zz_verif_*.go, tars/zzverif/vapi) there; hooks committed in /repo are compiled in with -tags verif",
        "baseline_off_cmd": "for m in $(cat /w/out/gomods.txt); do MF=$(cd /repo/$m && . /w/out/goenv.sh && gomodflag); (cd /repo/$m && go test $MF -json -vet=off -count=1 -timeout 25m ./...); done",
        "source_commits": [], "add_only": True}, **hooks_extra),
    "engines": [{"name": "gosym", "path": "engine/", "serves_properties": sorted(claimed),
                 "kind_free_text": "path-forking symbolic interpreter over go/ssa (x/tools v0.29.0) written for this task; bit-vector/FP terms, one incremental z3 process per worker, DFS by deterministic re-execution, 16 workers; native replay of counterexamples via go test"}],
    "checks": checks,
    "notes": "All checks are decided by the SMT solver over the real code's SSA within the bounds stated in each evidence file; see DESIGN.md. Exit 2 = inconclusive (never success).",
    "not_applicable": na,
}
json.dump(man, open(os.path.join(V, "MANIFEST.json"), "w"), indent=1)
print("claimed:", sorted(claimed))
