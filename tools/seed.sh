#!/bin/bash
# seed.sh confirm <seeddir> <pkgdir> [-run pattern]  : verify demo fails with the patch and passes without, in a scratch worktree
# seed.sh detect <patch.diff> <Cxx> <tier>            : apply the patch to /repo, run the check, undo
# seed.sh detectwt <patch.diff> <Cxx> <tier>          : same against a scratch worktree (does not touch /repo or evidence)
set -u
export GOFLAGS=-mod=mod GOPROXY=off GOSUMDB=off GOTOOLCHAIN=local
cmd=$1; shift
if [ "$cmd" = confirm ]; then
  sd=$1; pkg=$2; shift 2
  wt=$(mktemp -d /tmp/seedwt.XXXX); rmdir $wt
  git -C /repo worktree add -q $wt HEAD || exit 2
  cp $sd/demo_test.go $wt/$pkg/zz_seed_demo_test.go
  (cd $wt && go test -vet=off -count=1 "$@" ./$pkg >/tmp/seed_clean.log 2>&1); rc_clean=$?
  (cd $wt && git apply $sd/patch.diff) || { echo "PATCH DOES NOT APPLY"; git -C /repo worktree remove --force $wt; exit 2; }
  (cd $wt && go build ./... >/tmp/seed_build.log 2>&1); rc_build=$?
  (cd $wt && go test -vet=off -count=1 "$@" ./$pkg >/tmp/seed_mut.log 2>&1); rc_mut=$?
  echo "clean rc=$rc_clean (want 0)  build rc=$rc_build (want 0)  mutated rc=$rc_mut (want !=0)"
  tail -5 /tmp/seed_mut.log
  git -C /repo worktree remove --force $wt
elif [ "$cmd" = suite ]; then
  # run the existing test suite of the root module with the patch applied (must still pass)
  patch=$1
  wt=$(mktemp -d /tmp/seedwt.XXXX); rmdir $wt
  git -C /repo worktree add -q $wt HEAD || exit 2
  (cd $wt && git apply $patch && go test -vet=off -count=1 ./tars/... 2>&1 | grep -v "no test files\|^printNode\|^result\|^variance" | grep -v "^ok" | head -20)
  git -C /repo worktree remove --force $wt
elif [ "$cmd" = detectwt ]; then
  # like detect, but against a scratch worktree (VERIF_REPO) and without rewriting evidence: safe while other checks use /repo
  patch=$1; prop=$2; tier=$3
  wt=$(mktemp -d /tmp/seedwt.XXXX); rmdir $wt
  git -C /repo worktree add -q $wt HEAD || exit 2
  (cd $wt && git apply $patch) || { echo "PATCH DOES NOT APPLY"; git -C /repo worktree remove --force $wt; exit 2; }
  (cd /verif && VERIF_REPO=$wt VERIF_NOEVIDENCE=1 timeout 3000 ./check $prop $tier 2>&1 | grep -v "^Verif\|^loaded\|^PREPARE" | tail -8)
  git -C /repo worktree remove --force $wt
elif [ "$cmd" = detect ]; then
  patch=$1; prop=$2; tier=$3
  git -C /repo apply $patch || { echo "PATCH DOES NOT APPLY"; exit 2; }
  (cd /verif && timeout 3000 ./check $prop $tier 2>&1 | grep -v "^Verif\|^loaded\|^PREPARE" | tail -8); 
  git -C /repo checkout -- . ; git -C /repo status --short | head -3
  (cd /verif && git checkout evidence/$prop.json 2>/dev/null)
fi
